#![no_main]
mod common;
fuzz_check!("C01", "c01_model", |u: &mut arbitrary::Unstructured| { let t = common::timing(u, true, false); let tl = common::tl(u, 8, t, true, true); let back = tl.uses_back(); let start = if u.arbitrary::<u8>().unwrap_or(0) % 5 < 2 { Some(mv_core::desc::sanitize_vals(common::vals(u), back)) } else { None }; mv_core::c_timeline::C01Case { start, times: common::timespecs(u, 12), prefill: common::vals(u), tl } }, mv_core::c_timeline::c01_judge);

#![no_main]
mod common;
fuzz_check!("C05", "c05_model", |u: &mut arbitrary::Unstructured| common::hist(u, 24), (|c: &mv_core::c_animator::HistCase, o: &mut mv_engine::Obs| { let a = mv_core::c_animator::Asserts { c04: true, c05: true, c07: true, c08: false }; mv_core::c_animator::run_history(c, &a, o) }));

#![no_main]
mod common;
fuzz_check!("C10", "c10_twin", |u: &mut arbitrary::Unstructured| { let t = common::timing(u, true, false); let tl = common::tl(u, 8, t, true, true); let back = tl.uses_back(); mv_core::c_timeline::C10Case { others: vec![], earlier: if u.arbitrary::<u8>().unwrap_or(0) % 3 == 0 { vec![mv_core::desc::sanitize_vals(common::vals(u), back)] } else { vec![] }, v: mv_core::desc::sanitize_vals(common::vals(u), back), times: common::timespecs(u, 16), tl } }, mv_core::c_timeline::c10_judge);

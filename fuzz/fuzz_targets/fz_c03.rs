#![no_main]
mod common;
fuzz_check!("C03", "c03_random", |u: &mut arbitrary::Unstructured| mv_core::c_timescale::C03Case { timing: common::timing(u, true, true), times: common::timespecs(u, 16) }, mv_core::c_timescale::c03_judge);

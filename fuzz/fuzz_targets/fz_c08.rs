#![no_main]
mod common;
fuzz_check!("C08", "c08_sentinel", |u: &mut arbitrary::Unstructured| common::c08_case(u), mv_core::c_timeline::c08_judge);

#![no_main]
mod common;
fuzz_check!("C20", "c20_nopanic_release", |u: &mut arbitrary::Unstructured| common::c20_case(u), (|c: &mv_core::c_robust::C20Case, o: &mut mv_engine::Obs| mv_core::c_robust::c20_run_case(c, o).map(|_| ())));

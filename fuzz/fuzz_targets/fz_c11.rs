#![no_main]
mod common;
fuzz_check!("C11", "c11_permutation", |u: &mut arbitrary::Unstructured| { let t = common::timing(u, true, false); let mut tl = common::tl(u, 8, t, true, true).distinct_positions(); tl.kfs.sort_by(|a, b| a.pos.partial_cmp(&b.pos).unwrap()); let lehmer = (0..8).map(|_| u.arbitrary::<u16>().unwrap_or(0)).collect(); mv_core::c_timeline::C11Case { lehmer, times: common::timespecs(u, 24), start: None, tl } }, mv_core::c_timeline::c11_judge);

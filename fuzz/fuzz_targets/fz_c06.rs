#![no_main]
mod common;
fuzz_check!("C06", "c06_partitions", |u: &mut arbitrary::Unstructured| common::c06_case(u), mv_core::c_animator::c06_judge);

#![no_main]
mod common;
fuzz_check!("C14", "c14_floats_and_vectors", |u: &mut arbitrary::Unstructured| common::float_case(u), mv_core::c_lerp::float_judge);

#![no_main]
mod common;
fuzz_check!("C14", "c14_wide_ints", |u: &mut arbitrary::Unstructured| common::wide_case(u), mv_core::c_lerp::wide_judge);

// Shared glue for the libFuzzer targets: the fuzzer's bytes are decoded by hand
// (arbitrary::Unstructured) into the SAME abstract case types the generated tier uses, drawing from
// the same value pools; the oracle is the check's own judge function, run inside the target.
// (proptest's pass-through RNG cannot be used for this: every strategy fork halves the remaining
// input and rand's rejection sampling spins forever on the zeros that follow.)
#![allow(dead_code)]
use arbitrary::Unstructured;
use mv_core::anim::{AOp, AnimDesc, Step};
use mv_core::c_animator::HistCase;
use mv_core::desc::*;
use mv_model::{CustomEase, Rep, Timing};

pub type U<'a, 'b> = &'b mut Unstructured<'a>;

fn pick<T: Copy>(u: U, xs: &[T]) -> T {
    let i = u.int_in_range(0..=(xs.len() - 1)).unwrap_or(0);
    xs[i]
}
fn byte(u: U) -> u8 {
    u.arbitrary::<u8>().unwrap_or(0)
}
fn word(u: U) -> u16 {
    u.arbitrary::<u16>().unwrap_or(0)
}
fn dword(u: U) -> u32 {
    u.arbitrary::<u32>().unwrap_or(0)
}
fn chance(u: U, num: u8, den: u8) -> bool {
    byte(u) % den < num
}

pub fn ez(u: U, allow_back: bool, allow_custom: bool) -> Ez {
    let b = byte(u);
    match b % 8 {
        0 | 1 => Ez::Linear,
        2 | 3 | 4 => pick(u, &[Ez::InQuad, Ez::OutCubic, Ez::InOutSine, Ez::Ease, Ez::OutExpo, Ez::InCirc]),
        5 => BUILTINS[(byte(u) as usize) % 26],
        6 if allow_back => pick(u, &[Ez::InBack, Ez::OutBack, Ez::InOutBack]),
        _ if allow_custom => Ez::Custom(pick(u, &CustomEase::ALL)),
        _ => Ez::Linear,
    }
}

pub fn f32_val(u: U) -> f32 {
    match byte(u) % 4 {
        0 => (byte(u) as i32 - 100).clamp(-100, 100) as f32,
        1 => ((dword(u) as f64 / u32::MAX as f64) * 2.0e4 - 1.0e4) as f32,
        2 => pick(u, &[0.0f32, 1.0, -1.0, 100.0, 255.0, 0.5, -0.25]),
        _ => (word(u) as f32 - 32768.0) / 4.0,
    }
}
pub fn i32_val(u: U) -> i32 {
    match byte(u) % 3 {
        0 => byte(u) as i32 - 100,
        1 => (dword(u) % (1 << 25)) as i32 - (1 << 24),
        _ => pick(u, &[0i32, 1 << 24, -(1 << 24), 1000, -1000]),
    }
}
pub fn vals(u: U) -> Vals {
    Vals { a: f32_val(u), b: f32_val(u), c: i32_val(u), d: byte(u) }
}
pub fn pos(u: U) -> f32 {
    match byte(u) % 6 {
        0 | 1 => (byte(u) % 9) as f32 / 8.0,
        2 => (byte(u) % 65) as f32 / 64.0,
        3 => (byte(u) % 101) as f32 * 0.01,
        4 => pick(u, &[0.0f32, 1.0]),
        _ => word(u) as f32 / 65535.0,
    }
}
pub fn cycle(u: U) -> f32 {
    match byte(u) % 4 {
        0 | 1 => (1 + byte(u) % 64) as f32 / (1u32 << (byte(u) % 5)) as f32,
        2 => pick(u, &[0.1f32, 0.25, 0.3, 0.5, 1.0, 1.5, 2.0, 5.0, 20.0]),
        _ => 10f64.powf(-3.0 + 9.0 * word(u) as f64 / 65535.0) as f32,
    }
}
pub fn delay(u: U, allow_negative: bool) -> f32 {
    match byte(u) % 6 {
        0 | 1 => 0.0,
        2 => (byte(u) % 65) as f32 / (1u32 << (byte(u) % 5)) as f32,
        3 => pick(u, &[0.1f32, 0.25, 0.3, 1.0, 2.0, 5.0]),
        4 if allow_negative => -((1 + byte(u) % 16) as f32) / 8.0,
        _ => 10f64.powf(-3.0 + 7.0 * word(u) as f64 / 65535.0) as f32,
    }
}
pub fn repeat(u: U, boundary: bool) -> Rep {
    match byte(u) % 8 {
        0 | 1 | 2 => Rep::None,
        3 | 4 | 5 => Rep::Times(pick(u, &[0u32, 1, 2, 3, 7])),
        6 if boundary => Rep::Times(pick(u, &[(1u32 << 24) - 1, 1 << 24, (1 << 24) + 1, u32::MAX - 1, u32::MAX])),
        6 => Rep::Times(100),
        _ => Rep::Infinite,
    }
}
pub fn timing(u: U, allow_negative_delay: bool, boundary: bool) -> Timing {
    Timing { cycle: cycle(u), delay: delay(u, allow_negative_delay), repeat: repeat(u, boundary), reverse: chance(u, 1, 2) }
}
pub fn kf(u: U, back: bool, custom: bool) -> KfDesc {
    KfDesc {
        pos: pos(u),
        a: if chance(u, 3, 5) { Some(f32_val(u)) } else { None },
        b: if chance(u, 2, 5) { Some(f32_val(u)) } else { None },
        c: if chance(u, 3, 5) { Some(i32_val(u)) } else { None },
        d: if chance(u, 3, 5) { Some(byte(u)) } else { None },
        ez: if chance(u, 2, 5) { Some(ez(u, back, custom)) } else { None },
    }
}
pub fn tl(u: U, max_kfs: u8, t: Timing, back: bool, custom: bool) -> TlDesc {
    let n = byte(u) % (max_kfs + 1);
    let default_ez = ez(u, back, custom);
    let kfs = (0..n).map(|_| kf(u, back, custom)).collect();
    TlDesc { timing: t, default_ez, kfs, order: byte(u) % 8 }.sanitize()
}
pub fn timespec(u: U) -> TimeSpec {
    let k = |u: U| -> u32 {
        let b = byte(u);
        if b % 5 < 4 { (b % 4) as u32 } else { pick(u, &[7u32, 100, 1 << 20]) }
    };
    match byte(u) % 15 {
        0..=2 => TimeSpec::Abs(match byte(u) % 3 {
            0 => word(u) as f32 / 65535.0 * 50.0,
            1 => word(u) as f32 / 65535.0 * 4.0 - 2.0,
            _ => 10f64.powf(-4.0 + 11.0 * word(u) as f64 / 65535.0) as f32,
        }),
        3..=8 => TimeSpec::Frac { k: k(u), num: dword(u), den: 1 + byte(u) % 10 },
        9 | 10 => TimeSpec::Boundary { which: byte(u) % 4, k: k(u), ulps: (byte(u) % 5) as i8 - 2 },
        11..=13 => TimeSpec::Kf { k: k(u), sel: word(u), rev: chance(u, 1, 2), ulps: (byte(u) % 3) as i8 - 1 },
        _ => TimeSpec::Far(byte(u) % 5),
    }
}
pub fn timespecs(u: U, n: usize) -> Vec<TimeSpec> {
    (0..n).map(|_| timespec(u)).collect()
}

pub fn animator_timing(u: U) -> Timing {
    let rep = match byte(u) % 11 {
        0..=4 => Rep::None,
        5..=8 => Rep::Times((byte(u) % 4) as u32),
        _ => Rep::Infinite,
    };
    if byte(u) % 10 < 7 {
        let den = (1u32 << (byte(u) % 5)) as f32;
        Timing { cycle: (1 + byte(u) % 64) as f32 / den, delay: if chance(u, 3, 5) { 0.0 } else { (byte(u) % 49) as f32 / den }, repeat: rep, reverse: chance(u, 1, 2) }
    } else {
        Timing { cycle: pick(u, &[0.1f32, 0.3, 1.5, 5.0, 0.7]), delay: pick(u, &[0.0f32, 0.0, 0.1, 0.3, 2.0]), repeat: rep, reverse: chance(u, 1, 2) }
    }
}
pub fn anim_desc(u: U) -> AnimDesc {
    let comp = |u: U| {
        let t = animator_timing(u);
        tl(u, 5, t, false, false).distinct_positions()
    };
    let mut states = vec![];
    for s in 0..5 {
        let b = byte(u) % 28;
        let (anim, none) = if s < 3 { (24, 4) } else { (4, 24) };
        let _ = none;
        states.push(if b >= anim {
            None
        } else if b % 4 == 0 {
            Some(vec![comp(u), comp(u)])
        } else {
            Some(vec![comp(u)])
        });
    }
    AnimDesc { states, initial_state: byte(u) % 5, initial_values: vals(u), builder_order: byte(u) % 16 }
}
pub fn step(u: U) -> Step {
    match byte(u) % 24 {
        0 | 1 => Step::Zero,
        2..=9 => Step::Grid(pick(u, &[1u32, 32, 128, 256, 512, 1536, 51200])),
        10..=12 => Step::Grid(1 + word(u) as u32 % 4095),
        13..=15 => Step::Arb(if chance(u, 1, 2) { word(u) as f32 / 65535.0 * 4.0 } else { 10f64.powf(-4.0 + 6.5 * word(u) as f64 / 65535.0) as f32 }),
        16..=19 => Step::ToEnd { off: (byte(u) % 5) as i8 - 2 },
        20 => Step::ToEndUlps { ulps: (byte(u) % 7) as i8 - 3 },
        21 => Step::ToEndCycles { cycles: (byte(u) % 5) as i8 - 2 },
        22 => Step::Arb(pick(u, &[1.0e-9f32, 1.0e-7, f32::EPSILON, 3.0e-6, 5.0e-5])),
        _ => Step::Arb(10f64.powf(-9.5 + 5.5 * word(u) as f64 / 65535.0) as f32),
    }
}
pub fn hist(u: U, max_ops: u8) -> HistCase {
    let desc = anim_desc(u);
    let n = 1 + byte(u) % max_ops;
    let ops = (0..n).map(|_| if byte(u) % 9 < 5 { AOp::Adv(step(u)) } else { AOp::Set(byte(u) % 5) }).collect();
    HistCase { desc, ops }
}

// ---- C06: partitions of elapsed time
pub fn c06_case(u: U) -> mv_core::c_animator::C06Case {
    use mv_core::c_animator::{C06Case, Segment};
    let desc = anim_desc(u);
    let n = 1 + byte(u) % 6;
    let words = |u: U, max: u8| -> Vec<u16> { let k = byte(u) % (max + 1); (0..k).map(|_| word(u)).collect() };
    let segs = (0..n)
        .map(|_| {
            let units = match byte(u) % 6 {
                0..=2 => 1 + word(u) as u32 % 2047,
                3 | 4 => pick(u, &[512u32, 1024, 1536, 2560, 51200]),
                _ => 0,
            };
            Segment { units, cuts_a: words(u, 7), cuts_b: words(u, 7), zeros_b: words(u, 3), then_set: byte(u) % 5 }
        })
        .collect();
    C06Case { desc, segs }
}

// ---- C08: un-animated properties
pub fn c08_case(u: U) -> mv_core::c_timeline::C08Case {
    let n = 1 + byte(u) % 3;
    let drop_mask = byte(u) % 16;
    let mut tls: Vec<TlDesc> = (0..n).map(|_| { let t = timing(u, true, false); tl(u, 8, t, true, true) }).collect();
    for t in &mut tls {
        for k in &mut t.kfs {
            if drop_mask & 1 != 0 { k.a = None; }
            if drop_mask & 2 != 0 { k.b = None; }
            if drop_mask & 4 != 0 { k.c = None; }
            if drop_mask & 8 != 0 { k.d = None; }
        }
    }
    let tls: Vec<TlDesc> = tls.into_iter().map(|t| t.sanitize()).collect();
    let back = tls.iter().any(|t| t.uses_back());
    let start = if chance(u, 3, 10) { Some(sanitize_vals(vals(u), back)) } else { None };
    mv_core::c_timeline::C08Case { tls, drop_mask, start, times: timespecs(u, 10), sentinel: dword(u) }
}

// ---- C14: lerp
pub fn lerp_x(u: U) -> f32 {
    match byte(u) % 5 {
        0 | 1 => (word(u) % 257) as f32 / 256.0,
        2 => word(u) as f32 / 65535.0,
        3 => pick(u, &[0.0f32, 1.0, f32::MIN_POSITIVE, 1.0 - f32::EPSILON / 2.0, 0.5, f32::EPSILON, 1.4901161e-8, 2.9802322e-8, 1.0e-9, 1.0e-6, 0.999999, 0.99999994]),
        _ => {
            let f = f32::from_bits(dword(u) % 0x3f80_0001);
            if f.is_finite() && (0.0..=1.0).contains(&f) { f } else { 0.25 }
        }
    }
}
fn sorted_xs(u: U, n: usize) -> Vec<f32> {
    let mut xs: Vec<f32> = (0..n).map(|_| lerp_x(u)).collect();
    xs.sort_by(|p, q| p.partial_cmp(q).unwrap());
    xs
}
pub fn wide_case(u: U) -> mv_core::c_lerp::WideCase {
    let ty = byte(u) % 9;
    let (lo, hi) = mv_core::c_lerp::repr_limits(ty);
    let val = |u: U| -> f64 {
        let v = match byte(u) % 8 {
            0 => pick(u, &[0.0f64, 1.0, -1.0, 2.0, 127.0, 128.0, 255.0, 16_777_216.0, 16_777_215.0, 16_777_218.0, -16_777_216.0]),
            1 => lo,
            2 => hi,
            3 => if hi.abs() < 16_777_216.0 { hi - 1.0 } else { mv_model::step32(hi as f32, -1) as f64 },
            4 => if lo.abs() < 16_777_216.0 { lo + 1.0 } else { mv_model::step32(lo as f32, 1) as f64 },
            5 => { let f = f32::from_bits(dword(u)); if f.is_finite() { f.trunc() as f64 } else { 0.0 } }
            6 => (dword(u) % (1 << 24)) as f64 * 2f64.powi((byte(u) % 40) as i32),
            _ => -((dword(u) % (1 << 24)) as f64) * 2f64.powi((byte(u) % 40) as i32),
        };
        v.clamp(lo, hi)
    };
    let (a, b) = (val(u), val(u));
    mv_core::c_lerp::WideCase { ty, a, b, xs: sorted_xs(u, 8) }
}
pub fn float_case(u: U) -> mv_core::c_lerp::FloatCase {
    let f = |u: U| -> f32 {
        match byte(u) % 7 {
            0..=2 => ((dword(u) as f64 / u32::MAX as f64) * 2.0e4 - 1.0e4) as f32,
            3 | 4 => (byte(u) as i32 - 100).clamp(-99, 99) as f32,
            5 => pick(u, &[0.0f32, 1.0, -1.0, 1.0e30, -1.0e30, 1.0e-30, 16_777_216.0, 3.0e38, -3.0e38, f32::MAX, f32::MIN]),
            _ => { let v = f32::from_bits(dword(u)); if v.is_finite() && v.abs() < 1e37 { v } else { 0.0 } }
        }
    };
    let d = |u: U| -> f64 {
        match byte(u) % 6 {
            0 | 1 => (((dword(u) as f64 / u32::MAX as f64) * 2.0e6 - 1.0e6) as f32) as f64,
            2 => pick(u, &[0.0f64, 1.0, -1.0, 1.25e5, 6.77e5]),
            3 => (word(u) as i32 % 2000 - 1000) as f64,
            4 => { let v = f32::from_bits(dword(u)); if v.is_finite() && v.abs() < 1e37 && (v.abs() > 1e-37 || v == 0.0) { v as f64 } else { 0.0 } }
            _ => (1 + dword(u) % ((1 << 24) - 1)) as f64 * 2f64.powi((byte(u) as i32 % 241) - 120 - 24),
        }
    };
    let i = |u: U| -> i32 {
        match byte(u) % 5 {
            0 | 1 => word(u) as i32 % 2000 - 1000,
            2 => (dword(u) % (1 << 25)) as i32 - (1 << 24),
            3 => i32::MIN,
            _ => i32::MAX - 127,
        }
    };
    let (a, b, a64, b64) = (f(u), f(u), d(u), d(u));
    let xs = sorted_xs(u, 6);
    mv_core::c_lerp::FloatCase { a, b, a64, b64, xs, vec_a: [f(u), f(u), f(u), f(u)], vec_b: [f(u), f(u), f(u), f(u)], ivec_a: [i(u), i(u), i(u), i(u)], ivec_b: [i(u), i(u), i(u), i(u)] }
}

// ---- C20: extreme but valid configurations
pub fn c20_case(u: U) -> mv_core::c_robust::C20Case {
    use mv_core::c_robust::{C20Case, XTime};
    let log = |u: U, lo: f64, hi: f64| -> f32 { 10f64.powf(lo + (hi - lo) * word(u) as f64 / 65535.0) as f32 };
    let cyc = match byte(u) % 3 {
        0 => pick(u, &[f32::MIN_POSITIVE, 1.0e-30, 1.0e-10, 1.0e-3, 1.0, 1.0e10, 1.0e30, 2.0e38, 3.0e38]),
        1 => log(u, -37.9, 30.0),
        _ => cycle(u),
    };
    let del = match byte(u) % 10 {
        0..=2 => 0.0,
        3 | 4 => pick(u, &[1.0e30f32, -1.0e30, 1.0e-30, -1.0e-30, 1.0, -1.0]),
        5 | 6 => log(u, -30.0, 30.0),
        7 => -log(u, -30.0, 30.0),
        _ => delay(u, true),
    };
    let rep = match byte(u) % 11 {
        0 | 1 => Rep::None,
        2..=4 => Rep::Times(pick(u, &[0u32, 1, 2, 7])),
        5..=8 => Rep::Times(pick(u, &[(1u32 << 24) - 1, 1 << 24, (1 << 24) + 1, u32::MAX - 1, u32::MAX])),
        _ => Rep::Infinite,
    };
    let t = Timing { cycle: cyc, delay: del, repeat: rep, reverse: chance(u, 1, 2) };
    let xval = |u: U| -> f32 {
        match byte(u) % 7 {
            0..=2 => f32_val(u),
            3 | 4 => pick(u, &[1.2676506e30f32, -1.2676506e30, 1.0e-30, -1.0e-30, 0.0]),
            5 => pick(u, &[3.0e38f32, -3.0e38, f32::MAX, f32::MIN]),
            _ => log(u, -30.0, 30.0),
        }
    };
    let xpos = |u: U| -> f32 {
        if chance(u, 3, 5) { pos(u) } else { pick(u, &[0.0f32, 1.0, f32::MIN_POSITIVE, 1.0e-45, 1.0 - f32::EPSILON / 2.0, f32::EPSILON]) }
    };
    let n = byte(u) % 7;
    let default_ez = ez(u, true, true);
    let kfs = (0..n)
        .map(|_| KfDesc {
            pos: xpos(u),
            a: if chance(u, 3, 5) { Some(xval(u)) } else { None },
            b: if chance(u, 2, 5) { Some(xval(u)) } else { None },
            c: if chance(u, 1, 2) { Some(i32_val(u)) } else { None },
            d: if chance(u, 1, 2) { Some(byte(u)) } else { None },
            ez: if chance(u, 2, 5) { Some(ez(u, true, true)) } else { None },
        })
        .collect();
    let mut tl = TlDesc { timing: t, default_ez, kfs, order: byte(u) % 8 }.sanitize();
    let back = tl.uses_back();
    if back {
        for k in tl.kfs.iter_mut() {
            k.a = k.a.map(|v| v.clamp(-8.0e37, 8.0e37));
            k.b = k.b.map(|v| v.clamp(-8.0e37, 8.0e37));
        }
    }
    let xt = |u: U| -> XTime {
        match byte(u) % 16 {
            0 => XTime::Zero,
            1 => XTime::MinPositive,
            2 => XTime::Tiny,
            3..=8 => XTime::Boundary { which: byte(u) % 4, k: if chance(u, 3, 4) { (byte(u) % 4) as u32 } else { pick(u, &[1u32 << 24, u32::MAX - 1, u32::MAX]) }, ulps: (byte(u) % 5) as i8 - 2 },
            9 => XTime::ManyCycles,
            10 => XTime::E19,
            11 => XTime::TwoPow64,
            12 => XTime::Max,
            13 => XTime::Abs(word(u) as f32 / 655.35),
            _ => XTime::Abs(log(u, -30.0, 38.0)),
        }
    };
    let start = if chance(u, 3, 10) { Some(sanitize_vals(vals(u), back)) } else { None };
    let times = (0..10).map(|_| xt(u)).collect();
    let na = byte(u) % 7;
    let advances = (0..na).map(|_| xt(u)).collect();
    C20Case { tl, start, times, advances, second_state_animated: chance(u, 1, 2) }
}

pub fn report<C: serde::Serialize>(property: &str, check: &str, case: &C, detail: &str) -> ! {
    // write the abstract case as a normal replay file, then crash so that libFuzzer saves the input
    let root = std::env::var("VERIF_ROOT").unwrap_or_else(|_| "/verif".to_string());
    let dir = format!("{root}/replays/{property}");
    let _ = std::fs::create_dir_all(&dir);
    let body = serde_json::json!({"property": property, "check": check, "case": case, "detail": detail, "found_by": "libFuzzer"});
    let key = mv_engine::case_key(case);
    let path = format!("{dir}/{check}-fuzz-{key:016x}.json");
    let _ = std::fs::write(&path, serde_json::to_string_pretty(&body).unwrap());
    eprintln!("FUZZ-VIOLATION property={property} replay={path}\n  detail={detail}");
    std::process::abort();
}

#[macro_export]
macro_rules! fuzz_check {
    ($prop:expr, $check:expr, $decode:expr, $judge:expr) => {
        libfuzzer_sys::fuzz_target!(|data: &[u8]| {
            static HOOK: std::sync::Once = std::sync::Once::new();
            HOOK.call_once(|| std::panic::set_hook(Box::new(|_| {})));
            if data.len() < 16 {
                return;
            }
            let mut u = arbitrary::Unstructured::new(data);
            let case = $decode(&mut u);
            let mut obs = mv_engine::Obs::default();
            let r = std::panic::catch_unwind(std::panic::AssertUnwindSafe(|| $judge(&case, &mut obs)));
            match r {
                Ok(Ok(_)) => {}
                Ok(Err(d)) => common::report($prop, $check, &case, &d),
                Err(p) => common::report($prop, $check, &case, &format!("panic: {}", mv_engine::panic_msg(&p))),
            }
        });
    };
}

// Shared glue for the libFuzzer targets: the fuzzer's bytes are decoded by hand
// (arbitrary::Unstructured) into the SAME abstract case types the generated tier uses, drawing from
// the same value pools; the oracle is the check's own judge function, run inside the target.
// (proptest's pass-through RNG cannot be used for this: every strategy fork halves the remaining
// input and rand's rejection sampling spins forever on the zeros that follow.)
#![allow(dead_code)]
use arbitrary::Unstructured;
use mv_core::anim::{AOp, AnimDesc, Step};
use mv_core::c_animator::HistCase;
use mv_core::desc::*;
use mv_model::{CustomEase, Rep, Timing};

pub type U<'a, 'b> = &'b mut Unstructured<'a>;

fn pick<T: Copy>(u: U, xs: &[T]) -> T {
    let i = u.int_in_range(0..=(xs.len() - 1)).unwrap_or(0);
    xs[i]
}
fn byte(u: U) -> u8 {
    u.arbitrary::<u8>().unwrap_or(0)
}
fn word(u: U) -> u16 {
    u.arbitrary::<u16>().unwrap_or(0)
}
fn dword(u: U) -> u32 {
    u.arbitrary::<u32>().unwrap_or(0)
}
fn chance(u: U, num: u8, den: u8) -> bool {
    byte(u) % den < num
}

pub fn ez(u: U, allow_back: bool, allow_custom: bool) -> Ez {
    let b = byte(u);
    match b % 8 {
        0 | 1 => Ez::Linear,
        2 | 3 | 4 => pick(u, &[Ez::InQuad, Ez::OutCubic, Ez::InOutSine, Ez::Ease, Ez::OutExpo, Ez::InCirc]),
        5 => BUILTINS[(byte(u) as usize) % 26],
        6 if allow_back => pick(u, &[Ez::InBack, Ez::OutBack, Ez::InOutBack]),
        _ if allow_custom => Ez::Custom(pick(u, &CustomEase::ALL)),
        _ => Ez::Linear,
    }
}

pub fn f32_val(u: U) -> f32 {
    match byte(u) % 4 {
        0 => (byte(u) as i32 - 100).clamp(-100, 100) as f32,
        1 => ((dword(u) as f64 / u32::MAX as f64) * 2.0e4 - 1.0e4) as f32,
        2 => pick(u, &[0.0f32, 1.0, -1.0, 100.0, 255.0, 0.5, -0.25]),
        _ => (word(u) as f32 - 32768.0) / 4.0,
    }
}
pub fn i32_val(u: U) -> i32 {
    match byte(u) % 3 {
        0 => byte(u) as i32 - 100,
        1 => (dword(u) % (1 << 25)) as i32 - (1 << 24),
        _ => pick(u, &[0i32, 1 << 24, -(1 << 24), 1000, -1000]),
    }
}
pub fn vals(u: U) -> Vals {
    Vals { a: f32_val(u), b: f32_val(u), c: i32_val(u), d: byte(u) }
}
pub fn pos(u: U) -> f32 {
    match byte(u) % 6 {
        0 | 1 => (byte(u) % 9) as f32 / 8.0,
        2 => (byte(u) % 65) as f32 / 64.0,
        3 => (byte(u) % 101) as f32 * 0.01,
        4 => pick(u, &[0.0f32, 1.0]),
        _ => word(u) as f32 / 65535.0,
    }
}
pub fn cycle(u: U) -> f32 {
    match byte(u) % 4 {
        0 | 1 => (1 + byte(u) % 64) as f32 / (1u32 << (byte(u) % 5)) as f32,
        2 => pick(u, &[0.1f32, 0.25, 0.3, 0.5, 1.0, 1.5, 2.0, 5.0, 20.0]),
        _ => 10f64.powf(-3.0 + 9.0 * word(u) as f64 / 65535.0) as f32,
    }
}
pub fn delay(u: U, allow_negative: bool) -> f32 {
    match byte(u) % 6 {
        0 | 1 => 0.0,
        2 => (byte(u) % 65) as f32 / (1u32 << (byte(u) % 5)) as f32,
        3 => pick(u, &[0.1f32, 0.25, 0.3, 1.0, 2.0, 5.0]),
        4 if allow_negative => -((1 + byte(u) % 16) as f32) / 8.0,
        _ => 10f64.powf(-3.0 + 7.0 * word(u) as f64 / 65535.0) as f32,
    }
}
pub fn repeat(u: U, boundary: bool) -> Rep {
    match byte(u) % 8 {
        0 | 1 | 2 => Rep::None,
        3 | 4 | 5 => Rep::Times(pick(u, &[0u32, 1, 2, 3, 7])),
        6 if boundary => Rep::Times(pick(u, &[(1u32 << 24) - 1, 1 << 24, (1 << 24) + 1, u32::MAX - 1, u32::MAX])),
        6 => Rep::Times(100),
        _ => Rep::Infinite,
    }
}
pub fn timing(u: U, allow_negative_delay: bool, boundary: bool) -> Timing {
    Timing { cycle: cycle(u), delay: delay(u, allow_negative_delay), repeat: repeat(u, boundary), reverse: chance(u, 1, 2) }
}
pub fn kf(u: U, back: bool, custom: bool) -> KfDesc {
    KfDesc {
        pos: pos(u),
        a: if chance(u, 3, 5) { Some(f32_val(u)) } else { None },
        b: if chance(u, 2, 5) { Some(f32_val(u)) } else { None },
        c: if chance(u, 3, 5) { Some(i32_val(u)) } else { None },
        d: if chance(u, 3, 5) { Some(byte(u)) } else { None },
        ez: if chance(u, 2, 5) { Some(ez(u, back, custom)) } else { None },
    }
}
pub fn tl(u: U, max_kfs: u8, t: Timing, back: bool, custom: bool) -> TlDesc {
    let n = byte(u) % (max_kfs + 1);
    let default_ez = ez(u, back, custom);
    let kfs = (0..n).map(|_| kf(u, back, custom)).collect();
    TlDesc { timing: t, default_ez, kfs, order: byte(u) % 4 }.sanitize()
}
pub fn timespec(u: U) -> TimeSpec {
    let k = |u: U| -> u32 {
        let b = byte(u);
        if b % 5 < 4 { (b % 4) as u32 } else { pick(u, &[7u32, 100, 1 << 20]) }
    };
    match byte(u) % 15 {
        0..=2 => TimeSpec::Abs(match byte(u) % 3 {
            0 => word(u) as f32 / 65535.0 * 50.0,
            1 => word(u) as f32 / 65535.0 * 4.0 - 2.0,
            _ => 10f64.powf(-4.0 + 11.0 * word(u) as f64 / 65535.0) as f32,
        }),
        3..=8 => TimeSpec::Frac { k: k(u), num: dword(u), den: 1 + byte(u) % 10 },
        9 | 10 => TimeSpec::Boundary { which: byte(u) % 4, k: k(u), ulps: (byte(u) % 5) as i8 - 2 },
        11..=13 => TimeSpec::Kf { k: k(u), sel: word(u), rev: chance(u, 1, 2), ulps: (byte(u) % 3) as i8 - 1 },
        _ => TimeSpec::Far(byte(u) % 5),
    }
}
pub fn timespecs(u: U, n: usize) -> Vec<TimeSpec> {
    (0..n).map(|_| timespec(u)).collect()
}

pub fn animator_timing(u: U) -> Timing {
    let rep = match byte(u) % 11 {
        0..=4 => Rep::None,
        5..=8 => Rep::Times((byte(u) % 4) as u32),
        _ => Rep::Infinite,
    };
    if byte(u) % 10 < 7 {
        let den = (1u32 << (byte(u) % 5)) as f32;
        Timing { cycle: (1 + byte(u) % 64) as f32 / den, delay: if chance(u, 3, 5) { 0.0 } else { (byte(u) % 49) as f32 / den }, repeat: rep, reverse: chance(u, 1, 2) }
    } else {
        Timing { cycle: pick(u, &[0.1f32, 0.3, 1.5, 5.0, 0.7]), delay: pick(u, &[0.0f32, 0.0, 0.1, 0.3, 2.0]), repeat: rep, reverse: chance(u, 1, 2) }
    }
}
pub fn anim_desc(u: U) -> AnimDesc {
    let comp = |u: U| {
        let t = animator_timing(u);
        tl(u, 5, t, false, false).distinct_positions()
    };
    let mut states = vec![];
    for s in 0..5 {
        let b = byte(u) % 28;
        let (anim, none) = if s < 3 { (24, 4) } else { (4, 24) };
        let _ = none;
        states.push(if b >= anim {
            None
        } else if b % 4 == 0 {
            Some(vec![comp(u), comp(u)])
        } else {
            Some(vec![comp(u)])
        });
    }
    AnimDesc { states, initial_state: byte(u) % 5, initial_values: vals(u), builder_order: byte(u) % 8 }
}
pub fn step(u: U) -> Step {
    match byte(u) % 20 {
        0 | 1 => Step::Zero,
        2..=9 => Step::Grid(pick(u, &[1u32, 32, 128, 256, 512, 1536, 51200])),
        10..=12 => Step::Grid(1 + word(u) as u32 % 4095),
        13..=15 => Step::Arb(if chance(u, 1, 2) { word(u) as f32 / 65535.0 * 4.0 } else { 10f64.powf(-4.0 + 6.5 * word(u) as f64 / 65535.0) as f32 }),
        _ => Step::ToEnd { off: (byte(u) % 5) as i8 - 2 },
    }
}
pub fn hist(u: U, max_ops: u8) -> HistCase {
    let desc = anim_desc(u);
    let n = 1 + byte(u) % max_ops;
    let ops = (0..n).map(|_| if byte(u) % 9 < 5 { AOp::Adv(step(u)) } else { AOp::Set(byte(u) % 5) }).collect();
    HistCase { desc, ops }
}

pub fn report<C: serde::Serialize>(property: &str, check: &str, case: &C, detail: &str) -> ! {
    // write the abstract case as a normal replay file, then crash so that libFuzzer saves the input
    let root = std::env::var("VERIF_ROOT").unwrap_or_else(|_| "/verif".to_string());
    let dir = format!("{root}/replays/{property}");
    let _ = std::fs::create_dir_all(&dir);
    let body = serde_json::json!({"property": property, "check": check, "case": case, "detail": detail, "found_by": "libFuzzer"});
    let key = mv_engine::case_key(case);
    let path = format!("{dir}/{check}-fuzz-{key:016x}.json");
    let _ = std::fs::write(&path, serde_json::to_string_pretty(&body).unwrap());
    eprintln!("FUZZ-VIOLATION property={property} replay={path}\n  detail={detail}");
    std::process::abort();
}

#[macro_export]
macro_rules! fuzz_check {
    ($prop:expr, $check:expr, $decode:expr, $judge:expr) => {
        libfuzzer_sys::fuzz_target!(|data: &[u8]| {
            static HOOK: std::sync::Once = std::sync::Once::new();
            HOOK.call_once(|| std::panic::set_hook(Box::new(|_| {})));
            if data.len() < 16 {
                return;
            }
            let mut u = arbitrary::Unstructured::new(data);
            let case = $decode(&mut u);
            let mut obs = mv_engine::Obs::default();
            let r = std::panic::catch_unwind(std::panic::AssertUnwindSafe(|| $judge(&case, &mut obs)));
            match r {
                Ok(Ok(_)) => {}
                Ok(Err(d)) => common::report($prop, $check, &case, &d),
                Err(p) => common::report($prop, $check, &case, &format!("panic: {}", mv_engine::panic_msg(&p))),
            }
        });
    };
}

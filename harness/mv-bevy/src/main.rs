//! `bevyck C18|C19 quick|thorough` / `bevyck replay <id> <file>`: the Bevy plugin driven frame by
//! frame with a hand-set `Time` resource (no TimePlugin), single-threaded executor, a fresh `App` per
//! case.

use bevy::ecs::event::{Events, ManualEventReader};
use bevy::prelude::*;
use bevy_mina::prelude::*;
use mina::prelude::*;
use mv_core::desc::{self, Ez, KfDesc, TlDesc, Vals, NPROP, PROP_IS_INT, PROP_NAMES};
use mv_core::oracle::ModelTl;
use mv_engine::{Obs, Run};
use mv_model::{exact32, step32, ulp32, ulps_between, Rep, Timing};
use proptest::prelude::*;
use serde::{Deserialize, Serialize};
use std::time::Duration;

mod pair;

#[derive(Animate, Component, Clone, Debug, Default, PartialEq)]
pub struct A {
    #[animate]
    pub a: f32,
    #[animate]
    pub b: f32,
    #[animate]
    pub c: i32,
    #[animate]
    pub d: u8,
    pub s: f32,
    pub z: i32,
}

#[derive(Animate, Component, Clone, Debug, Default, PartialEq)]
pub struct B {
    pub v: f32,
}

impl A {
    fn from_vals(v: &Vals) -> A {
        A { a: v.a, b: v.b, c: v.c, d: v.d, s: 0.25, z: 7 }
    }
    fn get(&self, i: usize) -> f64 {
        match i {
            0 => self.a as f64,
            1 => self.b as f64,
            2 => self.c as f64,
            _ => self.d as f64,
        }
    }
    fn same(&self, o: &A) -> bool {
        let f = |x: f32, y: f32| x.to_bits() == y.to_bits() || (x == 0.0 && y == 0.0);
        f(self.a, o.a) && f(self.b, o.b) && self.c == o.c && self.d == o.d && f(self.s, o.s) && self.z == o.z
    }
}

fn build_a(d: &TlDesc) -> ATimeline {
    let mut b = A::timeline()
        .duration_seconds(d.timing.cycle)
        .delay_seconds(d.timing.delay)
        .repeat(desc::to_repeat(d.timing.repeat))
        .reverse(d.timing.reverse)
        .default_easing(d.default_ez.to_mina());
    for k in &d.kfs {
        let mut kb = A::keyframe(k.pos);
        if let Some(v) = k.a {
            kb = kb.a(v);
        }
        if let Some(v) = k.b {
            kb = kb.b(v);
        }
        if let Some(v) = k.c {
            kb = kb.c(v);
        }
        if let Some(v) = k.d {
            kb = kb.d(v);
        }
        if let Some(e) = k.ez {
            kb = kb.easing(e.to_mina());
        }
        b = b.keyframe(kb);
    }
    TimelineBuilder::build(b)
}

// A perfectly valid key type whose Hash is coarser than its Eq (K0/K1 collide, K2/K3 collide):
// selector code must compare keys, not hashes.
impl std::hash::Hash for K {
    fn hash<H: std::hash::Hasher>(&self, state: &mut H) {
        state.write_u8(*self as u8 / 2);
    }
}

#[derive(Clone, Copy, Debug, Default, PartialEq, Eq)]
pub enum K {
    #[default]
    K0,
    K1,
    K2,
    K3,
}
const KEYS: [K; 4] = [K::K0, K::K1, K::K2, K::K3];

/// frame deltas in nanoseconds: 0, 1/512 s, 1/8 s, 1/2 s, 3 s, 100 s (exact), and some arbitrary ones
const DELTAS_NS: [u64; 16] = [0, 1_953_125, 125_000_000, 500_000_000, 3_000_000_000, 100_000_000_000, 62_500_000, 16_666_667, 1, 33_000_000, 250_000_000, 25_000_000, 50_000_000, 100_000_000, 20_000_000_000_000, 3_000_000_000_000_000];

fn rank(s: AnimationState) -> u8 {
    match s {
        AnimationState::None => 0,
        AnimationState::Waiting => 1,
        AnimationState::Playing => 2,
        AnimationState::Ended => 3,
    }
}

/// exact seconds of a Duration as f64 (exact for < 2^53 ns when the nanoseconds are a dyadic fraction)
fn secs(d: Duration) -> f64 {
    let ns = d.as_nanos();
    if ns % 1_953_125 == 0 {
        (ns / 1_953_125) as f64 / 512.0
    } else {
        d.as_secs_f64()
    }
}

/// f32 candidates for "the position in seconds" (the conversion is the implementation's business)
fn time_candidates(d: Duration) -> Vec<f32> {
    let base = d.as_secs_f64() as f32;
    let mut v = vec![base, d.as_secs_f32()];
    for k in [-2, -1, 1, 2] {
        v.push(step32(base, k));
    }
    v.dedup();
    v
}

struct World1 {
    app: App,
    entity: Entity,
    now: std::time::Instant,
    reader: ManualEventReader<AnimationStateChanged>,
}

impl World1 {
    fn new(app: App, entity: Entity) -> Self {
        let mut app = app;
        let startup = app.world.resource::<Time>().startup();
        app.world.resource_mut::<Time>().update_with_instant(startup);
        World1 { app, entity, now: startup, reader: ManualEventReader::default() }
    }
    /// the frame delta the game clock reports (differs from the wall-clock step when the clock is
    /// paused or runs at another relative speed)
    fn last_delta(&self) -> Duration {
        self.app.world.resource::<Time>().delta()
    }
    fn frame(&mut self, delta_ns: u64) -> Vec<(Entity, AnimationState)> {
        self.now += Duration::from_nanos(delta_ns);
        let now = self.now;
        self.app.world.resource_mut::<Time>().update_with_instant(now);
        self.app.update();
        let events = self.app.world.resource::<Events<AnimationStateChanged>>();
        self.reader.iter(events).map(|e| (e.entity, e.state)).collect()
    }
    fn animator_a(&self) -> (AnimationState, Duration, bool) {
        let a = self.app.world.get::<Animator<A>>(self.entity).unwrap();
        (a.state(), a.timeline_position, a.enabled)
    }
    fn comp(&self) -> A {
        self.app.world.get::<A>(self.entity).unwrap().clone()
    }
    fn comp_opt(&self) -> Option<A> {
        self.app.world.get::<A>(self.entity).cloned()
    }
}

// =============================================================================================
// The per-frame animator rule shared by C18 and C19 ("predict the allowed outcomes, check the
// observation is one of them, continue from the observation").

enum Twin {
    One(ATimeline),
    Many(MergedTimeline<ATimeline>),
}

impl Twin {
    /// the limits the library itself reports for the installed timeline (f32)
    fn duration(&self) -> f32 {
        match self {
            Twin::One(x) => x.duration(),
            Twin::Many(x) => x.duration(),
        }
    }
    fn delay(&self) -> f32 {
        match self {
            Twin::One(x) => x.delay(),
            Twin::Many(x) => x.delay(),
        }
    }
    fn update(&self, v: &mut A, t: f32) {
        match self {
            Twin::One(x) => x.update(v, t),
            Twin::Many(x) => x.update(v, t),
        }
    }
}

struct TlInForce {
    /// the (first) component's description
    desc: TlDesc,
    /// further components when the installed timeline is a MergedTimeline
    more: Vec<TlDesc>,
    twin: Twin,
    models: Vec<ModelTl>,
    /// values substituted by start_with (selector blends), None for a plain timeline
    start: Option<A>,
}

impl TlInForce {
    fn new(desc: &TlDesc, start: Option<&A>) -> Self {
        let mut twin = build_a(desc);
        if let Some(s) = start {
            twin.start_with(s);
        }
        TlInForce { desc: desc.clone(), more: vec![], twin: Twin::One(twin), models: vec![ModelTl::new(desc)], start: start.cloned() }
    }
    /// a merged timeline of `desc` and `more` (later components win on shared properties)
    fn merged(desc: &TlDesc, more: &[TlDesc]) -> Self {
        let mut all = vec![desc.clone()];
        all.extend(more.iter().cloned());
        let twin = MergedTimeline::of(all.iter().map(build_a));
        TlInForce { desc: desc.clone(), more: more.to_vec(), twin: Twin::Many(twin), models: all.iter().map(ModelTl::new).collect(), start: None }
    }
    /// a merged timeline blended from `from` (start_with reaches every component)
    fn merged_from(desc: &TlDesc, more: &[TlDesc], from: &A) -> Self {
        let mut t = Self::merged(desc, more);
        if let Twin::Many(m) = &mut t.twin {
            m.start_with(from);
        }
        t.start = Some(from.clone());
        t
    }
    fn parts(&self) -> impl Iterator<Item = &TlDesc> {
        std::iter::once(&self.desc).chain(self.more.iter())
    }
    /// smallest component delay
    fn delay(&self) -> f64 {
        self.parts().map(|d| d.timing.delay as f64).fold(f64::INFINITY, f64::min)
    }
    /// largest component total (infinite if any repeats infinitely)
    fn total(&self) -> f64 {
        self.parts().map(|d| d.timing.total()).fold(0.0, f64::max)
    }
    fn total_exact(&self) -> bool {
        self.parts().all(|d| exact32(d.timing.total()) && exact32(d.timing.cycle as f64 * d.timing.repeat.cycles().unwrap_or(1) as f64))
    }
    /// An evaluation of the installed timeline at `t` (known to within `extra` s) judged by the f64
    /// model instead of the library twin: animated properties per C01/C10 (last component animating
    /// the property wins; before the delay that is exactly the substituted start value or the 0 %
    /// value), every other property as it was.
    fn model_check(&self, comp0: &A, comp1: &A, t: f64, extra: f64) -> Result<(), String> {
        for i in 0..NPROP {
            match self.models.iter().rev().find(|m| m.animates(i)) {
                Some(m) => {
                    let start = self.start.as_ref().map(|s| s.get(i));
                    m.judge_window(i, t, extra, start, comp1.get(i)).map_err(|e| format!("property {} after an evaluation at {t} s: {e}", PROP_NAMES[i]))?;
                }
                None => {
                    if comp1.get(i) != comp0.get(i) {
                        return Err(format!("property {} is not animated by the installed timeline but changed {} -> {}", PROP_NAMES[i], comp0.get(i), comp1.get(i)));
                    }
                }
            }
        }
        Ok(())
    }
    /// terminal value of property i: that of the last component animating it
    fn terminal(&self, i: usize) -> Option<f64> {
        self.models.iter().rev().find_map(|m| m.terminal(i))
    }
}

#[derive(Default)]
struct FrameFacts {
    entered_ended: bool,
    skipped_phase: bool,
    exact_end_decision: bool,
    near_band: bool,
    playing_eval: bool,
}

/// Judges one frame of an enabled/disabled animator. `st0,pos0,comp0` before the frame (after user
/// operations), `st1,pos1,comp1` after it. Returns facts for labels.
#[allow(clippy::too_many_arguments)]
fn judge_animator_frame(tl: Option<&TlInForce>, enabled: bool, delta: Duration, st0: AnimationState, pos0: Duration, comp0: &A, st1: AnimationState, pos1: Duration, comp1: &A) -> Result<FrameFacts, String> {
    judge_animator_frame_t(tl, enabled, delta, st0, pos0, comp0, st1, pos1, comp1, true)
}

/// `has_target` = the entity carries the animated component during this frame; without it there is
/// nothing to evaluate into, but the animator's clock, states and events go on as usual.
#[allow(clippy::too_many_arguments)]
fn judge_animator_frame_t(tl: Option<&TlInForce>, enabled: bool, delta: Duration, st0: AnimationState, pos0: Duration, comp0: &A, st1: AnimationState, pos1: Duration, comp1: &A, has_target: bool) -> Result<FrameFacts, String> {
    let mut facts = FrameFacts::default();
    if !enabled {
        if st1 != st0 || pos1 != pos0 || !comp1.same(comp0) {
            return Err(format!("disabled animator changed: state {:?}->{:?}, position {:?}->{:?}, component {:?}->{:?}", st0, st1, pos0, pos1, comp0, comp1));
        }
        return Ok(facts);
    }
    let Some(tl) = tl else {
        if st1 != AnimationState::None || pos1 != pos0 || !comp1.same(comp0) {
            return Err(format!("animator without timeline: state {:?}->{:?} (expected None), position {:?}->{:?}, component changed: {}", st0, st1, pos0, pos1, !comp1.same(comp0)));
        }
        return Ok(facts);
    };
    let s0 = secs(pos0);
    let total = tl.total();
    let delay = tl.delay();
    let pos_exact = pos0.as_nanos() % 1_953_125 == 0 && exact32(s0);
    // Outside the exact domain the only legitimate slack is (a) how the Duration position is converted
    // to f32 seconds - the correctly rounded value, `as_secs_f32`, or a neighbour: +-1 ulp - and (b) the
    // f32 rounding of the limit itself, for which the value the timeline reports is taken (it is judged
    // against the model by C03/C12; here it only has to be within 1.5 ulp of the model's, otherwise the
    // model's own rounding is used). The state must be "reached" when every candidate position is >= the
    // limit and must not be when none is.
    let cands: Vec<f32> = {
        let base = pos0.as_secs_f64() as f32;
        vec![base, pos0.as_secs_f32(), step32(base, -1), step32(base, 1)]
    };
    let (lo, hi) = cands.iter().fold((f32::INFINITY, f32::NEG_INFINITY), |(l, h), c| (l.min(*c), h.max(*c)));
    let decide = |limit: f64, limit_exact: bool, reported: f32| -> (bool, bool) {
        // (reached, ambiguous)
        if limit.is_infinite() {
            return (false, false);
        }
        if pos_exact && limit_exact {
            return (s0 >= limit, false);
        }
        let lim32 = if (reported as f64 - limit).abs() <= 1.5 * ulp32(limit as f32) as f64 { reported } else { limit as f32 };
        let certain = lo >= lim32;
        let possible = hi >= lim32;
        (certain, certain != possible)
    };
    let total_exact = tl.total_exact();
    let (ended, ended_amb) = decide(total, total_exact, tl.twin.duration());
    let (started, started_amb) = if st0 == AnimationState::Playing {
        // states only move forward: a Playing animator stays Playing (e.g. after set_timeline
        // installed a timeline with a longer delay) until it ends
        (true, false)
    } else {
        decide(delay, true, tl.twin.delay())
    };
    facts.exact_end_decision = pos_exact && total_exact && total.is_finite();
    facts.near_band = ended_amb || started_amb;
    // allowed resulting states
    let mut allowed: Vec<AnimationState> = vec![];
    if st0 == AnimationState::Ended {
        allowed.push(AnimationState::Ended);
    } else {
        let mut add = |e: bool, s: bool| {
            let st = if e {
                AnimationState::Ended
            } else if s {
                AnimationState::Playing
            } else {
                AnimationState::Waiting
            };
            if !allowed.contains(&st) {
                allowed.push(st);
            }
        };
        add(ended, started);
        if ended_amb {
            add(!ended, started);
        }
        if started_amb {
            add(ended, !started);
        }
    }
    if !allowed.contains(&st1) {
        return Err(format!(
            "state after the frame is {:?}; with position {:?} ({s0} s) at the start of the frame, delay {delay} s and total duration {total} s the state must be {:?} (state before: {:?})",
            st1, pos0, allowed, st0
        ));
    }
    // (an animator that ended under a previous timeline keeps reporting Ended after set_timeline:
    // that is documented; only a *newly* reported end is judged against the installed timeline)
    if total.is_infinite() && st1 == AnimationState::Ended && st0 != AnimationState::Ended {
        return Err("Ended reported for an infinitely repeating timeline".into());
    }
    if rank(st1) < rank(st0) {
        return Err(format!("state moved backwards {:?} -> {:?} without a reset", st0, st1));
    }
    // time conservation
    let want_pos = if st1 == AnimationState::Ended { pos0 } else { pos0 + delta };
    if pos1 != want_pos {
        return Err(format!("timeline_position {:?} -> {:?} in a frame of {:?} ending in state {:?}: expected {:?}", pos0, pos1, delta, st1, want_pos));
    }
    let entered_ended = st1 == AnimationState::Ended && st0 != AnimationState::Ended;
    facts.entered_ended = entered_ended;
    facts.skipped_phase = (st0 == AnimationState::Waiting || st0 == AnimationState::None) && st1 == AnimationState::Ended;
    if !has_target {
        return Ok(facts);
    }
    // component
    let eval_matches = |c1: &A| -> bool {
        for t in time_candidates(pos0) {
            let mut v = comp0.clone();
            tl.twin.update(&mut v, t);
            if v.same(c1) {
                return true;
            }
        }
        false
    };
    if st0 == AnimationState::Ended {
        if !comp1.same(comp0) {
            return Err(format!("component changed although the animator had already ended: {:?} -> {:?}", comp0, comp1));
        }
    } else if st0 == AnimationState::Playing || entered_ended {
        facts.playing_eval = st0 == AnimationState::Playing;
        if !eval_matches(comp1) {
            let mut v = comp0.clone();
            tl.twin.update(&mut v, pos0.as_secs_f64() as f32);
            return Err(format!(
                "state {:?} -> {:?} with position {:?} at the start of the frame: component is {:?} but the timeline evaluated at that position gives {:?} (component before the frame {:?})",
                st0, st1, pos0, comp1, v, comp0
            ));
        }
        // ... and what the library's evaluation returns there is what the timeline should give
        // (independent f64 model; the time is known to within the f32 conversion of the position)
        tl.model_check(comp0, comp1, s0, 2.0 * ulp32(s0 as f32) as f64).map_err(|e| format!("state {:?} -> {:?} with position {:?} at the start of the frame: {e} (component {:?} -> {:?})", st0, st1, pos0, comp0, comp1))?;
    } else if !comp1.same(comp0) {
        if !eval_matches(comp1) {
            return Err(format!("state {:?} -> {:?}: component changed to {:?}, which is neither its previous value {:?} nor the timeline at the frame's start position {:?}", st0, st1, comp1, comp0, pos0));
        }
        // An implementation may evaluate in a frame it enters as None / Waiting (the pristine one does
        // not), but then the values must be what the timeline *should* give there - before the delay
        // that is the substituted start value / the 0 % value - not merely what the library's own
        // evaluation returns (a defect in the evaluation before the delay would otherwise be invisible).
        tl.model_check(comp0, comp1, s0, ulp32(s0 as f32) as f64).map_err(|e| format!("state {:?} -> {:?}, component evaluated although not Playing: {e} (component {:?} -> {:?})", st0, st1, comp0, comp1))?;
    }
    // terminal values when Ended is (newly) reported: model values, exact domain
    if entered_ended && !ended_amb {
        for i in 0..NPROP {
            if let Some(want) = tl.terminal(i) {
                // a start_with value can only be terminal for ... nothing: terminal is 100 % or original 0 %
                let got = comp1.get(i);
                let ok = if PROP_IS_INT[i] { got == want } else { got as f32 == want as f32 || ulps_between(got as f32, want as f32) <= 2 };
                if !ok {
                    return Err(format!("Ended reported but property {} = {got}, the timeline's terminal value is {want}", PROP_NAMES[i]));
                }
            }
        }
        let _ = &tl.start;
    }
    Ok(facts)
}

// =============================================================================================
// C18

#[derive(Clone, Copy, Debug, PartialEq, Serialize, Deserialize)]
pub enum BOp {
    Frame(u8),
    Enable,
    Disable,
    Reset,
    /// install the main (false) or the other (true) timeline
    SetTimeline(bool),
    /// game clock: 0 = pause, 1 = unpause, 2 = half speed, 3 = double speed, 4 = normal speed
    Clock(u8),
    /// remove (false) / (re-)insert (true) the animated component on the entity: an animator whose
    /// entity has no target component still keeps time, changes state and announces it
    Target(bool),
    /// a frame whose length brings the position to the installed timeline's total duration plus
    /// {-2, -1, 0, 1, 2, 40, 400, 900, 1500, -30, -60, -100, -120} ns (an ordinary 1/512 s frame when that is not ahead)
    FrameToEnd(u8),
    /// the application writes `timeline_position` itself (documented: "fine-grained control of
    /// animation frames"): 0, the delay, the total -1/512 s, the total, the total + 1 s, 1/3 s
    Seek(u8),
}

#[derive(Clone, Debug, Serialize, Deserialize)]
pub struct C18Case {
    /// other entities in the world: bit 0 = an animator WITHOUT timeline spawned before the entity
    /// under test, bit 1 = a disabled animator spawned before it, bit 2 = a playing infinite animator
    /// spawned after it
    #[serde(default)]
    pub bystanders: u8,
    pub tl: TlDesc,
    pub other: TlDesc,
    /// when set, the main timeline is installed as `MergedTimeline::of([tl, extra])` (a staggered
    /// pair: `extra` often has the same cycle as `tl` and another delay)
    #[serde(default)]
    pub extra: Option<TlDesc>,
    pub with_timeline: bool,
    pub start_disabled: bool,
    pub start: Vals,
    pub ops: Vec<BOp>,
}

fn bevy_timing_strategy() -> impl Strategy<Value = Timing> {
    let rep = prop_oneof![5 => Just(Rep::None), 3 => (0u32..=2).prop_map(Rep::Times), 2 => Just(Rep::Infinite)];
    let dy = (rep.clone(), any::<bool>(), prop::sample::select(vec![0.25f32, 0.5, 1.0, 1.5, 2.0, 3.0, 6.0, 0.125, 0.5625]), prop_oneof![3 => Just(0.0f32), 3 => prop::sample::select(vec![0.125f32, 0.5, 2.0, 3.0, 150.0])])
        .prop_map(|(repeat, reverse, cycle, delay)| Timing { cycle, delay, repeat, reverse });
    let arb = (rep, any::<bool>(), prop::sample::select(vec![0.1f32, 0.3, 0.7, 1.1, 1.0 / 3.0, 1.0 / 7.0, 0.123456]), prop::sample::select(vec![0.0f32, 0.1, 0.3, 1.0 / 3.0])).prop_map(|(repeat, reverse, cycle, delay)| Timing { cycle, delay, repeat, reverse });
    prop_oneof![4 => dy, 1 => arb]
}

fn frame_sel() -> impl Strategy<Value = u8> {
    prop_oneof![7 => 0u8..7, 3 => 7u8..16]
}

fn c18_strategy() -> impl Strategy<Value = C18Case> {
    let op = prop_oneof![
        12 => frame_sel().prop_map(BOp::Frame),
        1 => Just(BOp::Enable),
        1 => Just(BOp::Disable),
        1 => Just(BOp::Reset),
        1 => any::<bool>().prop_map(BOp::SetTimeline),
        1 => (0u8..5).prop_map(BOp::Clock),
        1 => prop::bool::weighted(0.6).prop_map(BOp::Target),
        2 => (0u8..13).prop_map(BOp::FrameToEnd),
        1 => (0u8..6).prop_map(BOp::Seek),
    ];
    (
        desc::tl_strategy_animator(bevy_timing_strategy()),
        desc::tl_strategy_animator(bevy_timing_strategy()),
        prop::bool::weighted(0.9),
        prop::bool::weighted(0.1),
        desc::vals_strategy(),
        prop::collection::vec(op, 1..=40),
        prop_oneof![2 => Just(0u8), 3 => 0u8..8],
        prop::option::weighted(0.25, (desc::tl_strategy_animator(bevy_timing_strategy()), any::<bool>())),
    )
        .prop_map(|(tl, other, with_timeline, start_disabled, start, ops, bystanders, extra)| {
            // a staggered pair: same cycle, another delay (half of the time)
            let extra = extra.map(|(mut x, same_cycle)| {
                if same_cycle {
                    x.timing.cycle = tl.timing.cycle;
                }
                x
            });
            C18Case { bystanders, tl, other, extra, with_timeline, start_disabled, start, ops }
        })
}

const C18_LABELS: [&str; 18] = ["reached_ended", "frame_skipped_a_phase", "zero_frame", "disabled_frames", "reset_used", "set_timeline_used", "infinite", "exact_end_decision", "near_band", "playing_evaluated", "delayed", "no_timeline_start", "idle_bystander_first", "clock_paused_or_scaled", "frame_without_target_component", "frame_landing_next_to_the_end", "position_written_by_the_application", "merged_timeline_installed"];

fn c18_judge(c: &C18Case, obs: &mut Obs) -> Result<(), String> {
    let mut app = App::new();
    app.add_plugins(AnimationPlugin::<A>::new());
    app.insert_resource(Time::default());
    let start = A::from_vals(&c.start);
    let main_in_force = || match &c.extra {
        Some(x) => TlInForce::merged(&c.tl, std::slice::from_ref(x)),
        None => TlInForce::new(&c.tl, None),
    };
    let mut animator = match (c.with_timeline, &c.extra) {
        (false, _) if c.bystanders % 2 == 0 => Animator::default(),
        (false, _) => Animator::new(),
        (true, None) => Animator::with_timeline(build_a(&c.tl)),
        (true, Some(x)) => Animator::with_timeline(MergedTimeline::of([build_a(&c.tl), build_a(x)])),
    };
    if c.start_disabled {
        animator = animator.as_disabled();
    }
    // bystander entities: the animator under test must behave the same whatever else is in the world
    let by_vals = A { a: 11.0, b: 12.0, c: 13, d: 14, s: 15.0, z: 16 };
    let mut idle: Vec<Entity> = vec![];
    if c.bystanders & 1 != 0 {
        idle.push(app.world.spawn((by_vals.clone(), Animator::<A>::new())).id());
    }
    if c.bystanders & 2 != 0 {
        idle.push(app.world.spawn((by_vals.clone(), Animator::with_timeline(build_a(&c.other)).as_disabled())).id());
    }
    let entity = app.world.spawn((start.clone(), animator)).id();
    let runner_up = if c.bystanders & 4 != 0 {
        let mut t = c.tl.clone();
        t.timing.repeat = Rep::Infinite;
        Some(app.world.spawn((by_vals.clone(), Animator::with_timeline(build_a(&t)))).id())
    } else {
        None
    };
    obs.label_if(12, c.bystanders & 3 != 0);
    let mut w = World1::new(app, entity);
    // every public constructor gives an enabled animator (`as_disabled` is the only way to get another)
    if w.animator_a().2 == c.start_disabled {
        return Err(format!("a freshly constructed animator reports enabled = {} (constructed {})", w.animator_a().2, if c.start_disabled { "with as_disabled()" } else { "without as_disabled()" }));
    }
    let mut cur: Option<TlInForce> = if c.with_timeline { Some(main_in_force()) } else { None };
    obs.label_if(17, c.extra.is_some());
    obs.label_if(11, !c.with_timeline);
    obs.label_if(6, c.tl.timing.repeat == Rep::Infinite);
    obs.label_if(10, c.tl.timing.delay > 0.0);
    let mut ended_events_since_reset = 0u32;
    let mut runner_state = AnimationState::None;
    for (n, op) in c.ops.iter().enumerate() {
        match *op {
            BOp::Enable => w.app.world.get_mut::<Animator<A>>(entity).unwrap().enabled = true,
            BOp::Disable => w.app.world.get_mut::<Animator<A>>(entity).unwrap().enabled = false,
            BOp::Reset => {
                w.app.world.get_mut::<Animator<A>>(entity).unwrap().reset();
                ended_events_since_reset = 0;
                obs.label(4);
            }
            BOp::SetTimeline(other) => {
                match (other, &c.extra) {
                    (false, Some(x)) => {
                        w.app.world.get_mut::<Animator<A>>(entity).unwrap().set_timeline(MergedTimeline::of([build_a(&c.tl), build_a(x)]));
                        cur = Some(main_in_force());
                    }
                    _ => {
                        let d = if other { &c.other } else { &c.tl };
                        w.app.world.get_mut::<Animator<A>>(entity).unwrap().set_timeline(build_a(d));
                        cur = Some(TlInForce::new(d, None));
                    }
                }
                obs.label(5);
            }
            BOp::Clock(k) => {
                let mut time = w.app.world.resource_mut::<Time>();
                match k % 5 {
                    0 => time.pause(),
                    1 => time.unpause(),
                    2 => time.set_relative_speed(0.5),
                    3 => time.set_relative_speed(2.0),
                    _ => time.set_relative_speed(1.0),
                }
                obs.label(13);
            }
            BOp::Seek(sel) => {
                let total = cur.as_ref().map(|t| t.total()).filter(|t| t.is_finite()).unwrap_or(2.0);
                let delay = cur.as_ref().map(|t| t.delay()).unwrap_or(0.0);
                let secs = match sel % 6 {
                    0 => 0.0,
                    1 => delay,
                    2 => (total - 1.0 / 512.0).max(0.0),
                    3 => total,
                    4 => total + 1.0,
                    _ => 1.0 / 3.0,
                };
                w.app.world.get_mut::<Animator<A>>(entity).unwrap().timeline_position = Duration::from_nanos((secs * 1e9).round() as u64);
                obs.label(16);
            }
            BOp::Target(present) => {
                if present {
                    if w.comp_opt().is_none() {
                        w.app.world.entity_mut(entity).insert(start.clone());
                    }
                } else {
                    w.app.world.entity_mut(entity).remove::<A>();
                }
            }
            BOp::Frame(_) | BOp::FrameToEnd(_) => {
                let (st0, pos0, en0) = w.animator_a();
                let dns = match *op {
                    BOp::Frame(sel) => DELTAS_NS[sel as usize % DELTAS_NS.len()],
                    BOp::FrameToEnd(sel) => {
                        const OFF: [i64; 13] = [-2, -1, 0, 1, 2, 40, 400, 900, 1500, -30, -60, -100, -120];
                        let total = cur.as_ref().map(|t| t.total()).unwrap_or(f64::INFINITY);
                        let target = (total * 1e9).round() + OFF[sel as usize % OFF.len()] as f64;
                        let ahead = target - pos0.as_nanos() as f64;
                        if total.is_finite() && ahead > 0.0 && ahead < 1e15 {
                            obs.label(15);
                            ahead as u64
                        } else {
                            DELTAS_NS[1]
                        }
                    }
                    _ => unreachable!(),
                };
                obs.label_if(2, dns == 0);
                let has_target = w.comp_opt().is_some();
                let comp0 = w.comp_opt().unwrap_or_else(|| start.clone());
                let events = w.frame(dns);
                // "each frame's delta" is the game clock's delta
                let delta = w.last_delta();
                let (st1, pos1, _) = w.animator_a();
                let comp1 = w.comp_opt().unwrap_or_else(|| start.clone());
                if w.comp_opt().is_some() != has_target {
                    return Err(format!("op {n}: the animated component was {} by the plugin", if has_target { "removed" } else { "inserted" }));
                }
                obs.label_if(3, !en0);
                obs.label_if(14, !has_target && en0);
                let facts = judge_animator_frame_t(cur.as_ref(), en0, delta, st0, pos0, &comp0, st1, pos1, &comp1, has_target).map_err(|e| format!("op {n} frame({dns} ns){}: {e}", if has_target { "" } else { " [entity without the animated component]" }))?;
                // bystanders: idle ones never change, the running one keeps running
                for e in &idle {
                    let a = w.app.world.get::<Animator<A>>(*e).unwrap();
                    if !w.app.world.get::<A>(*e).unwrap().same(&by_vals) || a.timeline_position != Duration::ZERO {
                        return Err(format!("op {n}: an idle bystander entity was modified"));
                    }
                }
                if let Some(e) = runner_up {
                    let st = w.app.world.get::<Animator<A>>(e).unwrap().state();
                    if st == AnimationState::None {
                        return Err(format!("op {n}: a second entity's animator (spawned later, infinite timeline) never left state None"));
                    }
                    // its events: exactly one iff ITS state changed in this frame
                    let its: Vec<AnimationState> = events.iter().filter(|(x, _)| *x == e).map(|(_, s)| *s).collect();
                    let want: Vec<AnimationState> = if st != runner_state { vec![st] } else { vec![] };
                    if its != want {
                        return Err(format!("op {n}: the other entity's animator went {:?} -> {:?} in this frame but its events are {:?}", runner_state, st, its));
                    }
                    runner_state = st;
                }
                if events.iter().any(|(x, _)| idle.contains(x)) {
                    return Err(format!("op {n}: an event was sent for an idle bystander entity: {:?}", events));
                }
                let events: Vec<(Entity, AnimationState)> = events.into_iter().filter(|(e, _)| *e == entity).collect();
                // events: exactly one iff the state changed, carrying the state at the end of the frame
                let want_events: Vec<(Entity, AnimationState)> = if st1 != st0 { vec![(entity, st1)] } else { vec![] };
                if events != want_events {
                    return Err(format!("op {n} frame({dns} ns): state {:?} -> {:?} but events {:?} (expected {:?})", st0, st1, events, want_events));
                }
                if st1 == AnimationState::Ended && st0 != AnimationState::Ended {
                    ended_events_since_reset += 1;
                    if ended_events_since_reset > 1 {
                        return Err(format!("op {n}: more than one Ended event in one run"));
                    }
                    obs.label(0);
                }
                obs.label_if(1, facts.skipped_phase);
                obs.label_if(7, facts.exact_end_decision);
                obs.label_if(8, facts.near_band);
                obs.label_if(9, facts.playing_eval);
                obs.judged += 1;
            }
        }
    }
    let l = obs.labels;
    obs.nontrivial = l & 1 != 0 && (l & 2 != 0 || l & 4 != 0);
    Ok(())
}

fn c18(run: &mut Run) {
    run.assume("single-threaded executor, one App per case, Time advanced by hand (no TimePlugin); exact domain for the Ended/Waiting decisions when the position is a multiple of 2^-9 s representable in f32 and the total duration is representable, otherwise the decision is free only while the f32 candidates for the position in seconds (correctly rounded, as_secs_f32, +-1 ulp) straddle the limit the timeline reports");
    run.assume("in a frame that the animator does not enter as Playing and does not end, the component may either stay as it is or be evaluated at the frame's start position (the property does not say)");
    let cases = run.tier.pick(50_000, 2_000_000);
    run.prop(
        "c18_schedule",
        "proptest: timeline timing (delay 0/>0 incl. longer than any frame, repeat none/n/infinite, reverse) x start value x schedule <=40 of Frame(0, 1/512, 1/8, 1/2, 3, 100 s, 16.67 ms, 1 ns, ...)/FrameToEnd(total -2..+1500 ns)/Seek(position written by the application)/Enable/Disable/Reset/SetTimeline/game-clock pause+speed/remove+re-insert the target component in a fresh Bevy App; per-frame oracle: allowed states from the position at frame start, time conservation, component == timeline(pos0) when Playing or newly Ended (terminal values), disabled = frozen, exactly one event per state change carrying the final state; non-trivial = reaches Ended and has a phase-skipping or zero-length frame",
        &C18_LABELS,
        c18_strategy(),
        cases,
        c18_judge,
    );
    for (l, f) in [("reached_ended", 0.3), ("frame_skipped_a_phase", 0.05), ("zero_frame", 0.5), ("disabled_frames", 0.1), ("reset_used", 0.2), ("infinite", 0.1), ("exact_end_decision", 0.3), ("playing_evaluated", 0.4), ("frame_without_target_component", 0.1), ("frame_landing_next_to_the_end", 0.2)] {
        run.require_label("c18_schedule", l, f);
    }
    run.assume("two-entity part: only one animated component type, so chain -> select -> animate is totally ordered and two Apps fed the same frames are deterministic; what is compared is everything observable about the entity under test (state, position, enabled, component bits, events naming it)");
    let cases = run.tier.pick(20_000, 600_000);
    run.prop(
        "c18_two_entities",
        "proptest metamorphic (non-interference): the entity under test runs its C18 schedule alone in one App and next to a second, fully active animated entity (own timeline incl. merged / none, own enable / disable / reset / set_timeline / seek / target removal between the shared frames, spawned before or after) in another; state, position, enabled flag, component bits and the events naming the entity must agree frame by frame, and the companion gets exactly one event per state change of its own; non-trivial = the companion changed state in some frame and the entity under test reached Ended",
        &pair::C18_PAIR_LABELS,
        (c18_strategy(), c18_strategy(), any::<bool>()).prop_map(|(x, y, y_first)| pair::Pair { x, y, y_first }),
        cases,
        pair::c18_pair_judge,
    );
    for (l, f) in [("companion_changed_state_in_a_frame", 0.5), ("companion_ended", 0.2), ("x_ended", 0.2), ("both_changed_state_in_the_same_frame", 0.2), ("companion_operated_on_between_frames", 0.3)] {
        run.require_label("c18_two_entities", l, f);
    }
}

// =============================================================================================
// C19

#[derive(Clone, Copy, Debug, PartialEq, Serialize, Deserialize)]
pub enum SOp {
    Frame(u8),
    SetKey(u8),
    /// enable / disable the governed animator
    Enable(bool),
    /// the documented hot-swap on the governed animator: `Animator::set_timeline(tls[i])` (keeps state and
    /// position; the selector's registered timelines are not affected and come back at the next key change)
    HotSwap(u8),
    /// the application edits the public `AnimationChain::next_keys` map at run time: insert (from, to)
    /// (from != to); an entry added after an animation has ended does not fire retroactively
    ChainInsert(u8, u8),
}

#[derive(Clone, Debug, Serialize, Deserialize)]
pub struct C19Case {
    pub tls: Vec<TlDesc>,
    pub initial_key: u8,
    /// chain entries (from, to), None = no AnimationChain component
    pub chain: Option<Vec<(u8, u8)>>,
    /// second animated component type B with its own Animator<B> (duration in 1/8 s units)
    pub with_b: Option<u8>,
    /// delay of B's timeline in 1/8 s units (its Waiting -> Playing change then falls on some later frame)
    #[serde(default)]
    pub b_delay: u8,
    /// the governed animator is created with `Animator::with_timeline(tls[i])` (a construction-time
    /// timeline the selector replaces on its first frame) instead of `Animator::new()`
    #[serde(default)]
    pub ctor_timeline: Option<u8>,
    /// key `.0 % 3` is registered with `MergedTimeline::of([tls[key], .1])` (a staggered pair: the
    /// second part usually has another delay) instead of the plain timeline
    #[serde(default)]
    pub merged_key: Option<(u8, TlDesc)>,
    pub start: Vals,
    pub ops: Vec<SOp>,
}

impl C19Case {
    fn extra_for(&self, k: usize) -> Option<&TlDesc> {
        self.merged_key.as_ref().filter(|(m, _)| *m as usize % 3 == k).map(|(_, x)| x)
    }
    /// the timeline the selector installs for key k (< 3), blended from `from`
    fn in_force(&self, k: usize, from: &A) -> TlInForce {
        match self.extra_for(k) {
            Some(x) => TlInForce::merged_from(&self.tls[k], std::slice::from_ref(x), from),
            None => TlInForce::new(&self.tls[k], Some(from)),
        }
    }
}

fn add_keyed(sb: AnimationSelectorBuilder<K, A>, c: &C19Case, i: usize) -> AnimationSelectorBuilder<K, A> {
    match c.extra_for(i) {
        Some(x) => sb.add(KEYS[i], MergedTimeline::of([build_a(&c.tls[i]), build_a(x)])),
        None => sb.add(KEYS[i], build_a(&c.tls[i])),
    }
}

fn c19_strategy() -> impl Strategy<Value = C19Case> {
    let finite_timing = (prop::sample::select(vec![0.25f32, 0.5, 1.0, 1.5, 3.0, 0.5625, 0.28125]), prop_oneof![3 => Just(0.0f32), 1 => prop::sample::select(vec![0.125f32, 0.5])], prop_oneof![4 => Just(Rep::None), 1 => Just(Rep::Times(1)), 1 => Just(Rep::Infinite)], any::<bool>())
        .prop_map(|(cycle, delay, repeat, reverse)| Timing { cycle, delay, repeat, reverse });
    let op = prop_oneof![
        10 => prop_oneof![6 => 0u8..5, 2 => 5u8..16].prop_map(SOp::Frame),
        3 => (0u8..4).prop_map(SOp::SetKey),
        1 => any::<bool>().prop_map(SOp::Enable),
        1 => (0u8..3).prop_map(SOp::HotSwap),
        1 => (0u8..4, 0u8..4).prop_map(|(f, t)| SOp::ChainInsert(f, t)),
    ];
    let chain = prop::option::weighted(
        0.7,
        prop_oneof![
            4 => prop::collection::vec((0u8..4, 0u8..4), 0..=3).prop_map(|v| v.into_iter().filter(|(a, b)| a != b).collect::<Vec<_>>()),
            1 => (1u8..4).prop_map(|k| vec![(k, 0u8)]),
        ],
    );
    (
        prop::collection::vec(desc::tl_strategy_animator(finite_timing.clone()), 3),
        0u8..4,
        chain,
        prop::option::weighted(0.4, 1u8..24),
        desc::vals_strategy(),
        prop::collection::vec(op, 1..=40),
        prop_oneof![2 => Just(0u8), 3 => 0u8..12],
        prop::option::weighted(0.3, 0u8..3),
        prop::option::weighted(0.3, (0u8..3, desc::tl_strategy_animator(finite_timing.clone()), 0u8..3)),
    )
        .prop_map(|(tls, initial_key, chain, with_b, start, ops, b_delay, ctor_timeline, merged)| {
            // the second part of a staggered pair: same cycle and a later start, most of the time
            let merged_key = merged.map(|(k, mut x, mode): (u8, TlDesc, u8)| {
                let first = &tls[k as usize % 3];
                if mode > 0 {
                    x.timing.cycle = first.timing.cycle;
                    x.timing.delay = first.timing.delay + if mode == 1 { 0.5 } else { 0.125 };
                }
                (k, x)
            });
            C19Case { tls, initial_key, chain, with_b, b_delay, ctor_timeline, merged_key, start, ops }
        })
}

const C19_LABELS: [&str; 19] = ["key_change_mid_flight", "chain_fired", "end_without_chain_entry", "other_animator_ended", "key_set_in_gap_after_end", "same_key_reassigned", "key_without_timeline", "has_chain", "two_component_types", "chain_first_order_consistent", "select_first_order_consistent", "ended_reached", "animator_disabled", "animator_constructed_with_a_timeline", "chain_made_with_reset_after", "hot_swap_under_a_selector", "second_component_selected_by_the_same_key_type", "chain_map_edited_at_run_time", "merged_timeline_selected"];

/// One hypothesis about the (unspecified but fixed) relative order of chain_animations / select_animation.
struct Hyp {
    chain_first: bool,
    alive: bool,
    why_dead: String,
    acted_key: Option<u8>,
    tl: Option<TlInForce>,
}

fn c19_judge(c: &C19Case, obs: &mut Obs) -> Result<(), String> {
    let mut app = App::new();
    app.add_plugins(AnimationPlugin::<A>::new());
    if c.with_b.is_some() {
        app.add_plugins(AnimationPlugin::<B>::new());
    }
    app.register_animation_key::<A, K>();
    // the same key type may govern a second component type, through a selector of its own
    let b_selected = c.with_b.is_some() && c.b_delay % 4 == 3;
    if b_selected {
        app.register_animation_key::<B, K>();
    }
    app.insert_resource(Time::default());
    let start = A::from_vals(&c.start);
    let mut sb = AnimationSelectorBuilder::<K, A>::new().initial_key(KEYS[c.initial_key as usize % 4]);
    for i in 0..c.tls.len().min(3) {
        sb = add_keyed(sb, c, i);
    }
    // sometimes an unrelated entity with an animator that has no timeline exists (and comes first
    // in iteration order): it must not influence the entity under test
    let idle = if c.b_delay % 2 == 1 { Some(app.world.spawn((A::from_vals(&c.start), Animator::<A>::new())).id()) } else { None };
    let mut chain_map = std::collections::HashMap::new();
    // ... and the two public ways of making the selector
    let selector = if c.b_delay % 3 == 1 {
        let mut m: bevy::utils::HashMap<K, Box<dyn bevy_mina::prelude::SafeTimeline<Target = A>>> = bevy::utils::HashMap::new();
        for (i, t) in c.tls.iter().enumerate().take(3) {
            match c.extra_for(i) {
                Some(x) => m.insert(KEYS[i], Box::new(MergedTimeline::of([build_a(t), build_a(x)]))),
                None => m.insert(KEYS[i], Box::new(build_a(t))),
            };
        }
        AnimationSelector::<K, A>::new(m, KEYS[c.initial_key as usize % 4])
    } else {
        sb.build()
    };
    let governed = match c.ctor_timeline {
        Some(i) => Animator::<A>::with_timeline(build_a(&c.tls[i as usize % c.tls.len().max(1)])),
        // `Animator::default()` is the same thing as `Animator::new()`
        None if c.initial_key % 2 == 0 => Animator::<A>::default(),
        None => Animator::<A>::new(),
    };
    obs.label_if(13, c.ctor_timeline.is_some());
    obs.label_if(18, c.merged_key.is_some());
    let mut ec = app.world.spawn((start.clone(), governed, selector));
    if let Some(ch) = &c.chain {
        for (f, t) in ch {
            chain_map.insert(*f % 4, *t % 4);
        }
        // the equivalent public ways of making the same chain: the builder, `reset_after` (one entry
        // leading to the default key), or `new()` with the public map filled in directly
        let single_to_default = chain_map.len() == 1 && chain_map.values().all(|t| KEYS[*t as usize] == K::default()) && ch.len() == 1;
        let chain = if single_to_default && c.b_delay % 2 == 0 {
            obs.label(14);
            AnimationChain::<K>::reset_after(KEYS[ch[0].0 as usize % 4])
        } else if c.initial_key % 2 == 1 {
            let mut m = AnimationChain::<K>::new();
            for (f, t) in ch {
                m.next_keys.insert(KEYS[*f as usize % 4], KEYS[*t as usize % 4]);
            }
            m
        } else {
            let mut cb = AnimationChainBuilder::<K>::new();
            for (f, t) in ch {
                cb = cb.add(KEYS[*f as usize % 4], KEYS[*t as usize % 4]);
            }
            cb.build()
        };
        ec.insert(chain);
        obs.label(7);
    }
    if let Some(units) = c.with_b {
        let btl = TimelineBuilder::build(B::timeline().duration_seconds(units as f32 / 8.0).delay_seconds(c.b_delay as f32 / 8.0).keyframe(B::keyframe(0.0).v(0.0)).keyframe(B::keyframe(1.0).v(1.0)));
        if b_selected {
            let mut bsel = AnimationSelectorBuilder::<K, B>::new().initial_key(KEYS[0]);
            for k in KEYS {
                bsel = bsel.add(k, btl.clone());
            }
            ec.insert((B { v: 0.0 }, Animator::<B>::new(), bsel.build()));
            obs.label(16);
        } else {
            ec.insert((B { v: 0.0 }, Animator::<B>::with_timeline(btl)));
        }
        obs.label(8);
    }
    let entity = ec.id();
    let mut w = World1::new(app, entity);
    if !w.animator_a().2 {
        return Err("a freshly constructed animator (Animator::new / default / with_timeline) is not enabled".into());
    }
    let mk = |chain_first: bool| Hyp { chain_first, alive: true, why_dead: String::new(), acted_key: None, tl: None };
    let mut hyps = vec![mk(true), mk(false)];
    let mut key: u8 = c.initial_key % 4; // the key as the schedule last set it / as the frames left it
    let mut a_ended_last_frame = false;
    let mut b_ended_last_frame = false;
    let mut set_since_frame = false;
    for (n, op) in c.ops.iter().enumerate() {
        match *op {
            SOp::SetKey(k) => {
                let k = k % 4;
                let (st, _, _) = w.animator_a();
                if k == key {
                    obs.label(5);
                } else if st == AnimationState::Playing || st == AnimationState::Waiting {
                    obs.label(0);
                }
                if a_ended_last_frame && k != key {
                    obs.label(4);
                }
                w.app.world.get_mut::<AnimationSelector<K, A>>(entity).unwrap().timeline_key = KEYS[k as usize];
                key = k;
                set_since_frame = true;
                obs.label_if(6, k == 3);
            }
            SOp::Enable(on) => {
                w.app.world.get_mut::<Animator<A>>(entity).unwrap().enabled = on;
                obs.label_if(12, !on);
            }
            SOp::ChainInsert(f, t) => {
                let (f, t) = (f % 4, t % 4);
                // (only on entities with a single animator: with a second animated component type the
                // pristine plugin cannot tell whose Ended event it reads once the governed animator rests
                // in Ended - a run-time edit is outside the statement's "chains with and without entries")
                if f != t && c.chain.is_some() && c.with_b.is_none() {
                    if let Some(mut ch) = w.app.world.get_mut::<AnimationChain<K>>(entity) {
                        ch.next_keys.insert(KEYS[f as usize], KEYS[t as usize]);
                        chain_map.insert(f, t);
                        obs.label(17);
                    }
                }
            }
            SOp::HotSwap(i) => {
                let d = &c.tls[i as usize % c.tls.len().max(1)];
                w.app.world.get_mut::<Animator<A>>(entity).unwrap().set_timeline(build_a(d));
                for h in hyps.iter_mut() {
                    h.tl = Some(TlInForce::new(d, None));
                }
                obs.label(15);
            }
            SOp::Frame(sel) => {
                let dns = DELTAS_NS[sel as usize % DELTAS_NS.len()];
                let delta = Duration::from_nanos(dns);
                let (st0, pos0, en0) = w.animator_a();
                let comp0 = w.comp();
                let b0 = c.with_b.map(|_| w.app.world.get::<Animator<B>>(entity).unwrap().state());
                let events = w.frame(dns);
                let (st1, pos1, _) = w.animator_a();
                let comp1 = w.comp();
                let b1 = c.with_b.map(|_| w.app.world.get::<Animator<B>>(entity).unwrap().state());
                if b_selected && b1 == Some(AnimationState::None) {
                    return Err(format!("op {n}: the second component type is governed by a selector of the same key type (registered with register_animation_key::<B, K>) whose current key has a timeline, but its animator is still in state None after a frame"));
                }
                let key1 = KEYS.iter().position(|k| *k == w.app.world.get::<AnimationSelector<K, A>>(entity).unwrap().timeline_key).unwrap() as u8;
                let mut any_alive = false;
                let mut key_after_model = key;
                for h in hyps.iter_mut().filter(|h| h.alive) {
                    // --- predict under this hypothesis
                    let mut mkey = key;
                    let mut acted = h.acted_key;
                    let mut restart: Option<u8> = None;
                    let chain_step = |mkey: &mut u8, acted: &Option<u8>, restarted_already: bool| {
                        // the chain fires only if OUR animator ended in the previous frame and is still
                        // in that ended state when the chain looks at it (a restart by the selector
                        // earlier in the same frame - a user key change - takes precedence), while the
                        // key is still the one the selector acted on, and the chain has an entry for it
                        if a_ended_last_frame && st0 == AnimationState::Ended && !restarted_already && *acted == Some(*mkey) {
                            if let Some(next) = chain_map.get(mkey) {
                                *mkey = *next;
                                return true;
                            }
                        }
                        false
                    };
                    let mut fired = false;
                    let select_step = |mkey: &u8, acted: &mut Option<u8>, restart: &mut Option<u8>| {
                        if *acted != Some(*mkey) {
                            *acted = Some(*mkey);
                            *restart = Some(*mkey);
                        }
                    };
                    if h.chain_first {
                        fired |= chain_step(&mut mkey, &acted, false);
                        select_step(&mkey, &mut acted, &mut restart);
                    } else {
                        select_step(&mkey, &mut acted, &mut restart);
                        fired |= chain_step(&mut mkey, &acted, restart.is_some());
                    }
                    // animator as seen by `animate` in this frame
                    let (tl_now, st_in, pos_in): (Option<TlInForce>, AnimationState, Duration) = match restart {
                        Some(k) => {
                            let t = if (k as usize) < 3 { Some(c.in_force(k as usize, &comp0)) } else { None };
                            (t, AnimationState::None, Duration::ZERO)
                        }
                        None => (None, st0, pos0),
                    };
                    let tl_ref = if restart.is_some() { tl_now.as_ref() } else { h.tl.as_ref() };
                    let res = (|| -> Result<(), String> {
                        if key1 != mkey {
                            return Err(format!("selector key after the frame is {:?} but should be {:?} (key before the frame {:?}, our animator ended last frame: {a_ended_last_frame}, another animator ended last frame: {b_ended_last_frame}, chain {:?})", KEYS[key1 as usize], KEYS[mkey as usize], KEYS[key as usize], c.chain));
                        }
                        if restart.is_some() && tl_ref.is_none() {
                            // key without timeline: animation stops, component left alone
                            if st1 != AnimationState::None || pos1 != Duration::ZERO || !comp1.same(&comp0) {
                                return Err(format!("key {:?} has no timeline: expected the animator to stop (state None, position 0, component untouched) but got state {:?}, position {:?}, component {:?} -> {:?}", KEYS[mkey as usize], st1, pos1, comp0, comp1));
                            }
                            return Ok(());
                        }
                        if restart.is_some() && !comp1.same(&comp0) {
                            // blended from the current values: the component must not jump in the frame of the key change
                            // (evaluation at position 0 of the blended timeline gives the same values, so any
                            // difference is a jump)
                            let mut v = comp0.clone();
                            tl_ref.unwrap().twin.update(&mut v, 0.0);
                            if !v.same(&comp1) {
                                return Err(format!("component jumped in the frame of the key change to {:?}: {:?} -> {:?}", KEYS[mkey as usize], comp0, comp1));
                            }
                            // ... and by the model: position 0 of a timeline blended from the current
                            // values IS the current values (whatever its delay)
                            tl_ref.unwrap().model_check(&comp0, &comp1, 0.0, 0.0).map_err(|e| format!("component jumped in the frame of the key change to {:?}: {e} ({:?} -> {:?})", KEYS[mkey as usize], comp0, comp1))?;
                        }
                        judge_animator_frame(tl_ref, en0, delta, st_in, pos_in, &comp0, st1, pos1, &comp1).map(|_| ())?;
                        // events: one per animator state change on this entity (a restart resets our
                        // animator to None first, so Playing -> restart -> Playing is a change)
                        let want = (st1 != st_in) as usize + (b0 != b1) as usize;
                        if events.len() != want {
                            return Err(format!("{} events for {} animator state changes ({:?})", events.len(), want, events));
                        }
                        if st1 != st_in && !events.iter().any(|(e, s)| *e == entity && *s == st1) {
                            return Err(format!("state changed to {:?} but no event carries it ({:?})", st1, events));
                        }
                        Ok(())
                    })();
                    match res {
                        Ok(()) => {
                            any_alive = true;
                            h.acted_key = acted;
                            if restart.is_some() {
                                h.tl = tl_now;
                            }
                            key_after_model = mkey;
                            if fired {
                                obs.label(1);
                            }
                        }
                        Err(e) => {
                            h.alive = false;
                            h.why_dead = format!("op {n} frame({dns} ns): {e}");
                        }
                    }
                }
                if !any_alive {
                    return Err(format!(
                        "no order of chain_animations/select_animation explains the observations. If chain runs first: {} || if select runs first: {}",
                        hyps[0].why_dead, hyps[1].why_dead
                    ));
                }
                let a_ended_now = st1 == AnimationState::Ended && st0 != AnimationState::Ended;
                let b_ended_now = b1 == Some(AnimationState::Ended) && b0 != Some(AnimationState::Ended);
                if a_ended_now {
                    obs.label(11);
                    if !chain_map.contains_key(&key1) {
                        obs.label(2);
                    }
                }
                obs.label_if(3, b_ended_now);
                a_ended_last_frame = a_ended_now;
                b_ended_last_frame = b_ended_now;
                key = key_after_model;
                set_since_frame = false;
                obs.judged += 1;
            }
        }
    }
    let _ = set_since_frame;
    if let Some(e) = idle {
        if !w.app.world.get::<A>(e).unwrap().same(&A::from_vals(&c.start)) {
            return Err("an unrelated idle entity was modified".into());
        }
    }
    obs.label_if(9, hyps[0].alive);
    obs.label_if(10, hyps[1].alive);
    let l = obs.labels;
    obs.nontrivial = l & 1 != 0 && (c.chain.is_none() || (l & 2 != 0));
    Ok(())
}

fn c19(run: &mut Run) {
    run.assume("the relative order of chain_animations and select_animation is unspecified but fixed per App: the model is run under both orders and a violation is reported only when neither explains the observations");
    run.assume("self-loop chain entries k->k are not generated (the statement speaks of moving to another key)");
    let cases = run.tier.pick(50_000, 2_000_000);
    run.prop(
        "c19_selector_chain",
        "proptest: 3 keyed timelines + 1 key without timeline, optional chain (0-3 entries, cycles allowed), optional second component type B with its own animator, schedule <=40 of Frame(delta)/SetKey (incl. re-assigning the current key and assignments right after an end); oracle: key after every frame per the chain rule, restart blended from the current values without a jump, no-timeline key stops animation, then the C18 per-frame animator rule; non-trivial = key change mid-flight and (for chain cases) a chain firing",
        &C19_LABELS,
        c19_strategy(),
        cases,
        c19_judge,
    );
    for (l, f) in [("key_change_mid_flight", 0.3), ("chain_fired", 0.05), ("end_without_chain_entry", 0.05), ("other_animator_ended", 0.05), ("key_set_in_gap_after_end", 0.02), ("same_key_reassigned", 0.2), ("key_without_timeline", 0.2), ("merged_timeline_selected", 0.15)] {
        run.require_label("c19_selector_chain", l, f);
    }
    run.assume("two-entity part: only component type A (no Animator<B>), so chain -> select -> animate is totally ordered and two Apps fed the same frames are deterministic");
    let cases = run.tier.pick(20_000, 600_000);
    let one = || c19_strategy().prop_map(|mut c| { c.with_b = None; c });
    run.prop(
        "c19_two_entities",
        "proptest metamorphic (non-interference): a selector-governed entity runs its key / frame history alone in one App and next to a second selector-governed entity of the same key and component types (own timelines, own chain, own key assignments between the shared frames, spawned before or after) in another; animator state, position, component bits, selector key and events naming the entity must agree frame by frame - a key change, an end or a chain step of one entity never moves the other; non-trivial = the companion changed state and the entity under test ended or changed key mid-flight",
        &pair::C19_PAIR_LABELS,
        (one(), one(), any::<bool>()).prop_map(|(x, y, y_first)| pair::Pair { x, y, y_first }),
        cases,
        pair::c19_pair_judge,
    );
    for (l, f) in [("companion_changed_state_in_a_frame", 0.5), ("companion_ended", 0.2), ("x_ended", 0.2), ("companion_key_assigned_between_frames", 0.3), ("x_key_moved_by_its_chain", 0.03), ("companion_key_moved_by_its_chain", 0.03), ("companion_ended_while_x_rests_ended", 0.03)] {
        run.require_label("c19_two_entities", l, f);
    }
}

fn main() {
    let args: Vec<String> = std::env::args().skip(1).collect();
    let Some(mut run) = Run::from_args(&args) else {
        eprintln!("usage: bevyck <C18|C19> [quick|thorough] | bevyck replay <Cnn> <file>");
        std::process::exit(2);
    };
    mv_engine::quiet_panics();
    let _ = (Ez::Linear, KfDesc { pos: 0.0, a: None, b: None, c: None, d: None, ez: None });
    match run.id.as_str() {
        "C18" => c18(&mut run),
        "C19" => c19(&mut run),
        other => {
            eprintln!("unknown property {other}");
            std::process::exit(2);
        }
    }
    std::process::exit(run.finish());
}

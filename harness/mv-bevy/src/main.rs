fn main(){}

//! Two fully active entities in one App (C18 and C19): non-interference. The entity under test `x`
//! runs its case alone in one App and next to a companion entity `y` (own timelines, own key
//! assignments / enable / reset / re-target operations between the shared frames) in a second App.
//! Everything the properties speak about for `x` - animator state, position, enabled flag, the
//! component's values, the selector key, the events that name `x` - must be identical, frame by
//! frame, in both Apps: neither property lets an entity's animation depend on what other entities
//! do. (The solo behaviour itself is judged by the model in the main checks, over the same case
//! distribution.) Only one animated component type is used, so the schedule chain -> select ->
//! animate is totally ordered and both Apps are deterministic.

use super::*;

#[derive(Clone, Debug, Serialize, Deserialize)]
pub struct Pair<C> {
    pub x: C,
    pub y: C,
    /// the companion is spawned before the entity under test (comes first in iteration order)
    pub y_first: bool,
}

fn comp_bits(a: Option<&A>) -> String {
    match a {
        None => "-".into(),
        Some(a) => format!("a={:08x} b={:08x} c={} d={} s={:08x} z={}", a.a.to_bits(), a.b.to_bits(), a.c, a.d, a.s.to_bits(), a.z),
    }
}

struct Duo {
    solo: World1,
    both: World1,
    /// the companion in `both`
    y: Entity,
}

impl Duo {
    /// one frame in both Apps; returns the two observations of x and the companion's events
    fn frame(&mut self, dns: u64, with_key: bool) -> (String, String, Vec<AnimationState>, AnimationState) {
        let ev_s = self.solo.frame(dns);
        let ev_b = self.both.frame(dns);
        let y = self.y;
        let y_events: Vec<AnimationState> = ev_b.iter().filter(|(e, _)| *e == y).map(|(_, s)| *s).collect();
        let see = |w: &World1, ev: &[(Entity, AnimationState)]| {
            let (st, pos, en) = w.animator_a();
            let key = if with_key { format!(" key={:?}", w.app.world.get::<AnimationSelector<K, A>>(w.entity).unwrap().timeline_key) } else { String::new() };
            let mine: Vec<AnimationState> = ev.iter().filter(|(e, _)| *e == w.entity).map(|(_, s)| *s).collect();
            format!("state={:?} pos={:?} enabled={} comp[{}]{} events={:?}", st, pos, en, comp_bits(w.comp_opt().as_ref()), key, mine)
        };
        let st = self.both.animator_a().0;
        (see(&self.solo, &ev_s), see(&self.both, &ev_b), y_events, st)
    }
}

// ---------------------------------------------------------------------------------------------
// C18

fn c18_animator(c: &C18Case) -> Animator<A> {
    let a = match (c.with_timeline, &c.extra) {
        (false, _) => Animator::new(),
        (true, None) => Animator::with_timeline(build_a(&c.tl)),
        (true, Some(x)) => Animator::with_timeline(MergedTimeline::of([build_a(&c.tl), build_a(x)])),
    };
    if c.start_disabled {
        a.as_disabled()
    } else {
        a
    }
}

fn c18_total(c: &C18Case, other: Option<bool>) -> f64 {
    match (other, &c.extra) {
        (None, _) => f64::INFINITY,
        (Some(false), Some(x)) => c.tl.timing.total().max(x.timing.total()),
        (Some(false), None) => c.tl.timing.total(),
        (Some(true), _) => c.other.timing.total(),
    }
}

/// applies one non-frame, non-clock operation of case `c` to entity `e`
fn c18_apply(world: &mut World, e: Entity, c: &C18Case, op: BOp, installed: &mut Option<bool>) {
    match op {
        BOp::Enable => world.get_mut::<Animator<A>>(e).unwrap().enabled = true,
        BOp::Disable => world.get_mut::<Animator<A>>(e).unwrap().enabled = false,
        BOp::Reset => world.get_mut::<Animator<A>>(e).unwrap().reset(),
        BOp::SetTimeline(other) => {
            match (other, &c.extra) {
                (false, Some(x)) => world.get_mut::<Animator<A>>(e).unwrap().set_timeline(MergedTimeline::of([build_a(&c.tl), build_a(x)])),
                _ => world.get_mut::<Animator<A>>(e).unwrap().set_timeline(build_a(if other { &c.other } else { &c.tl })),
            }
            *installed = Some(other);
        }
        BOp::Seek(sel) => {
            let total = Some(c18_total(c, *installed)).filter(|t| t.is_finite()).unwrap_or(2.0);
            let secs = match sel % 6 {
                0 => 0.0,
                1 => 0.125,
                2 => (total - 1.0 / 512.0).max(0.0),
                3 => total,
                4 => total + 1.0,
                _ => 1.0 / 3.0,
            };
            world.get_mut::<Animator<A>>(e).unwrap().timeline_position = Duration::from_nanos((secs * 1e9).round() as u64);
        }
        BOp::Target(present) => {
            if present {
                if world.get::<A>(e).is_none() {
                    world.entity_mut(e).insert(A::from_vals(&c.start));
                }
            } else {
                world.entity_mut(e).remove::<A>();
            }
        }
        BOp::Clock(_) | BOp::Frame(_) | BOp::FrameToEnd(_) => {}
    }
}

pub const C18_PAIR_LABELS: [&str; 8] = ["companion_first_in_iteration_order", "companion_changed_state_in_a_frame", "companion_ended", "x_ended", "both_changed_state_in_the_same_frame", "companion_operated_on_between_frames", "companion_without_target_component", "x_disabled_while_companion_runs"];

pub fn c18_pair_judge(p: &Pair<C18Case>, obs: &mut Obs) -> Result<(), String> {
    let mk = |with_y: bool| -> (App, Entity, Option<Entity>) {
        let mut app = App::new();
        app.add_plugins(AnimationPlugin::<A>::new());
        app.insert_resource(Time::default());
        let mut y = None;
        if with_y && p.y_first {
            y = Some(app.world.spawn((A::from_vals(&p.y.start), c18_animator(&p.y))).id());
        }
        let x = app.world.spawn((A::from_vals(&p.x.start), c18_animator(&p.x))).id();
        if with_y && !p.y_first {
            y = Some(app.world.spawn((A::from_vals(&p.y.start), c18_animator(&p.y))).id());
        }
        (app, x, y)
    };
    let (a1, x1, _) = mk(false);
    let (a2, x2, y) = mk(true);
    let mut duo = Duo { solo: World1::new(a1, x1), both: World1::new(a2, x2), y: y.unwrap() };
    obs.label_if(0, p.y_first);
    let mut x_installed = if p.x.with_timeline { Some(false) } else { None };
    let mut y_installed = if p.y.with_timeline { Some(false) } else { None };
    let mut yi = 0usize;
    for (n, op) in p.x.ops.iter().enumerate() {
        match *op {
            BOp::Clock(k) => {
                for w in [&mut duo.solo, &mut duo.both] {
                    let mut time = w.app.world.resource_mut::<Time>();
                    match k % 5 {
                        0 => time.pause(),
                        1 => time.unpause(),
                        2 => time.set_relative_speed(0.5),
                        3 => time.set_relative_speed(2.0),
                        _ => time.set_relative_speed(1.0),
                    }
                }
            }
            BOp::Frame(_) | BOp::FrameToEnd(_) => {
                // the companion's own operations up to its next frame marker
                while yi < p.y.ops.len() {
                    let yop = p.y.ops[yi];
                    yi += 1;
                    if matches!(yop, BOp::Frame(_) | BOp::FrameToEnd(_)) {
                        break;
                    }
                    if !matches!(yop, BOp::Clock(_)) {
                        let ye = duo.y;
                        c18_apply(&mut duo.both.app.world, ye, &p.y, yop, &mut y_installed);
                        obs.label(5);
                    }
                }
                let (st0, pos0, en0) = duo.solo.animator_a();
                let dns = match *op {
                    BOp::Frame(sel) => DELTAS_NS[sel as usize % DELTAS_NS.len()],
                    BOp::FrameToEnd(sel) => {
                        const OFF: [i64; 13] = [-2, -1, 0, 1, 2, 40, 400, 900, 1500, -30, -60, -100, -120];
                        let total = c18_total(&p.x, x_installed);
                        let ahead = (total * 1e9).round() + OFF[sel as usize % OFF.len()] as f64 - pos0.as_nanos() as f64;
                        if total.is_finite() && ahead > 0.0 && ahead < 1e15 {
                            ahead as u64
                        } else {
                            DELTAS_NS[1]
                        }
                    }
                    _ => unreachable!(),
                };
                let y_state0 = duo.both.app.world.get::<Animator<A>>(duo.y).unwrap().state();
                obs.label_if(6, duo.both.app.world.get::<A>(duo.y).is_none());
                let (solo, both, y_events, st1) = duo.frame(dns, false);
                if solo != both {
                    return Err(format!("op {n} frame({dns} ns): the entity under test behaves differently next to a second animated entity (companion {:?} -> {:?}, spawned {}): alone [{solo}] / with the companion [{both}]", y_state0, duo.both.app.world.get::<Animator<A>>(duo.y).unwrap().state(), if p.y_first { "first" } else { "second" }));
                }
                let y_state1 = duo.both.app.world.get::<Animator<A>>(duo.y).unwrap().state();
                // the companion's events: exactly one iff its state changed, carrying the new state
                let want: Vec<AnimationState> = if y_state1 != y_state0 { vec![y_state1] } else { vec![] };
                if y_events != want {
                    return Err(format!("op {n} frame({dns} ns): the companion's animator went {:?} -> {:?} but the events naming it are {:?}", y_state0, y_state1, y_events));
                }
                obs.label_if(1, y_state1 != y_state0);
                obs.label_if(2, y_state1 == AnimationState::Ended && y_state0 != AnimationState::Ended);
                obs.label_if(3, st1 == AnimationState::Ended && st0 != AnimationState::Ended);
                obs.label_if(4, y_state1 != y_state0 && st1 != st0);
                obs.label_if(7, !en0 && y_state1 == AnimationState::Playing);
                obs.judged += 1;
            }
            other => {
                c18_apply(&mut duo.solo.app.world, x1, &p.x, other, &mut x_installed.clone());
                c18_apply(&mut duo.both.app.world, x2, &p.x, other, &mut x_installed);
            }
        }
    }
    let l = obs.labels;
    obs.nontrivial = l & 2 != 0 && l & 8 != 0;
    Ok(())
}

// ---------------------------------------------------------------------------------------------
// C19

fn c19_spawn(app: &mut App, c: &C19Case) -> Entity {
    let mut sb = AnimationSelectorBuilder::<K, A>::new().initial_key(KEYS[c.initial_key as usize % 4]);
    for i in 0..c.tls.len().min(3) {
        sb = add_keyed(sb, c, i);
    }
    let governed = match c.ctor_timeline {
        Some(i) => Animator::<A>::with_timeline(build_a(&c.tls[i as usize % c.tls.len().max(1)])),
        None => Animator::<A>::new(),
    };
    let mut ec = app.world.spawn((A::from_vals(&c.start), governed, sb.build()));
    if let Some(ch) = &c.chain {
        let mut cb = AnimationChainBuilder::<K>::new();
        for (f, t) in ch {
            if f % 4 != t % 4 {
                cb = cb.add(KEYS[*f as usize % 4], KEYS[*t as usize % 4]);
            }
        }
        ec.insert(cb.build());
    }
    ec.id()
}

fn c19_apply(world: &mut World, e: Entity, c: &C19Case, op: SOp) {
    match op {
        SOp::SetKey(k) => world.get_mut::<AnimationSelector<K, A>>(e).unwrap().timeline_key = KEYS[k as usize % 4],
        SOp::Enable(on) => world.get_mut::<Animator<A>>(e).unwrap().enabled = on,
        SOp::ChainInsert(f, t) => {
            if f % 4 != t % 4 {
                if let Some(mut ch) = world.get_mut::<AnimationChain<K>>(e) {
                    ch.next_keys.insert(KEYS[f as usize % 4], KEYS[t as usize % 4]);
                }
            }
        }
        SOp::HotSwap(i) => world.get_mut::<Animator<A>>(e).unwrap().set_timeline(build_a(&c.tls[i as usize % c.tls.len().max(1)])),
        SOp::Frame(_) => {}
    }
}

pub const C19_PAIR_LABELS: [&str; 9] = ["companion_first_in_iteration_order", "companion_changed_state_in_a_frame", "companion_ended", "x_ended", "companion_key_assigned_between_frames", "x_key_moved_by_its_chain", "companion_key_moved_by_its_chain", "x_key_changed_mid_flight", "companion_ended_while_x_rests_ended"];

pub fn c19_pair_judge(p: &Pair<C19Case>, obs: &mut Obs) -> Result<(), String> {
    let mk = |with_y: bool| -> (App, Entity, Option<Entity>) {
        let mut app = App::new();
        app.add_plugins(AnimationPlugin::<A>::new());
        app.register_animation_key::<A, K>();
        app.insert_resource(Time::default());
        let mut y = None;
        if with_y && p.y_first {
            y = Some(c19_spawn(&mut app, &p.y));
        }
        let x = c19_spawn(&mut app, &p.x);
        if with_y && !p.y_first {
            y = Some(c19_spawn(&mut app, &p.y));
        }
        (app, x, y)
    };
    let (a1, x1, _) = mk(false);
    let (a2, x2, y) = mk(true);
    let mut duo = Duo { solo: World1::new(a1, x1), both: World1::new(a2, x2), y: y.unwrap() };
    obs.label_if(0, p.y_first);
    let key_of = |w: &World1, e: Entity| w.app.world.get::<AnimationSelector<K, A>>(e).unwrap().timeline_key;
    let mut yi = 0usize;
    let mut x_key_set = key_of(&duo.solo, x1);
    for (n, op) in p.x.ops.iter().enumerate() {
        match *op {
            SOp::Frame(sel) => {
                let mut y_key_set = key_of(&duo.both, duo.y);
                while yi < p.y.ops.len() {
                    let yop = p.y.ops[yi];
                    yi += 1;
                    if matches!(yop, SOp::Frame(_)) {
                        break;
                    }
                    let ye = duo.y;
                    c19_apply(&mut duo.both.app.world, ye, &p.y, yop);
                    if let SOp::SetKey(k) = yop {
                        y_key_set = KEYS[k as usize % 4];
                        obs.label(4);
                    }
                }
                let dns = DELTAS_NS[sel as usize % DELTAS_NS.len()];
                let st0 = duo.solo.animator_a().0;
                let y_state0 = duo.both.app.world.get::<Animator<A>>(duo.y).unwrap().state();
                let (solo, both, _y_events, st1) = duo.frame(dns, true);
                if solo != both {
                    return Err(format!("op {n} frame({dns} ns): the entity under test behaves differently next to a second selector-governed entity (companion animator {:?} -> {:?}, key {:?}, spawned {}): alone [{solo}] / with the companion [{both}]", y_state0, duo.both.app.world.get::<Animator<A>>(duo.y).unwrap().state(), key_of(&duo.both, duo.y), if p.y_first { "first" } else { "second" }));
                }
                let y_state1 = duo.both.app.world.get::<Animator<A>>(duo.y).unwrap().state();
                obs.label_if(1, y_state1 != y_state0);
                let y_ended = y_state1 == AnimationState::Ended && y_state0 != AnimationState::Ended;
                obs.label_if(2, y_ended);
                obs.label_if(3, st1 == AnimationState::Ended && st0 != AnimationState::Ended);
                obs.label_if(8, y_ended && st0 == AnimationState::Ended);
                let xk = key_of(&duo.both, x2);
                obs.label_if(5, xk != x_key_set);
                x_key_set = xk;
                obs.label_if(6, key_of(&duo.both, duo.y) != y_key_set);
                obs.judged += 1;
            }
            other => {
                if let SOp::SetKey(k) = other {
                    let st = duo.solo.animator_a().0;
                    obs.label_if(7, KEYS[k as usize % 4] != x_key_set && (st == AnimationState::Playing || st == AnimationState::Waiting));
                    x_key_set = KEYS[k as usize % 4];
                }
                c19_apply(&mut duo.solo.app.world, x1, &p.x, other);
                c19_apply(&mut duo.both.app.world, x2, &p.x, other);
            }
        }
    }
    let l = obs.labels;
    obs.nontrivial = l & 2 != 0 && (l & 8 != 0 || l & 128 != 0);
    Ok(())
}

//! Independent f64 reference model of mina's documented semantics.
//!
//! Written from the property statements (C01, C02, C03, C05, C10, C12) and the rustdoc. It shares no
//! code with mina and does not depend on it. Easing functions are supplied by the caller as
//! `Fn(f64) -> f64` so that the model itself never evaluates mina code.

use serde::{Deserialize, Serialize};

#[derive(Clone, Copy, Debug, PartialEq, Eq, Hash, Serialize, Deserialize)]
pub enum Rep {
    None,
    Times(u32),
    Infinite,
}

impl Rep {
    /// Number of cycles played in total (`None` for infinite).
    pub fn cycles(&self) -> Option<u64> {
        match self {
            Rep::None => Some(1),
            Rep::Times(n) => Some(*n as u64 + 1),
            Rep::Infinite => None,
        }
    }
    /// Rank used for "largest repeat" in merged timelines: None == Times(0) < Times(n) < Infinite.
    pub fn rank(&self) -> u64 {
        match self {
            Rep::None => 0,
            Rep::Times(n) => *n as u64,
            Rep::Infinite => u64::MAX,
        }
    }
}

#[derive(Clone, Copy, Debug, PartialEq, Serialize, Deserialize)]
pub struct Timing {
    pub cycle: f32,
    pub delay: f32,
    pub repeat: Rep,
    pub reverse: bool,
}

#[derive(Clone, Copy, Debug, PartialEq)]
pub enum Phase {
    NotStarted,
    /// `pos` in [0,1]; `cycle` = index of the cycle the time belongs to (hold rule applied);
    /// `reversing` = on the falling half of a reversing cycle.
    Active { pos: f64, cycle: u64, reversing: bool },
    Ended { pos: f64 },
}

impl Phase {
    pub fn pos(&self) -> f64 {
        match self {
            Phase::NotStarted => 0.0,
            Phase::Active { pos, .. } => *pos,
            Phase::Ended { pos } => *pos,
        }
    }
    /// The substituted start value may influence the result only here.
    pub fn first_forward_pass(&self) -> bool {
        match self {
            Phase::NotStarted => true,
            Phase::Active { cycle, reversing, .. } => *cycle == 0 && !*reversing,
            Phase::Ended { .. } => false,
        }
    }
    pub fn kind(&self) -> u8 {
        match self {
            Phase::NotStarted => 0,
            Phase::Active { .. } => 1,
            Phase::Ended { .. } => 2,
        }
    }
}

impl Timing {
    /// Total duration: delay + cycle * (repeats + 1); infinite for infinite repeat.
    pub fn total(&self) -> f64 {
        match self.repeat.cycles() {
            Some(n) => self.delay as f64 + self.cycle as f64 * n as f64,
            None => f64::INFINITY,
        }
    }

    /// Length of the active span (without the delay).
    pub fn active_span(&self) -> f64 {
        match self.repeat.cycles() {
            Some(n) => self.cycle as f64 * n as f64,
            None => f64::INFINITY,
        }
    }

    /// Phase at real time `t`, computed in f64 from the f32 configuration.
    pub fn phase(&self, t: f64) -> Phase {
        self.phase_s(t - self.delay as f64)
    }

    /// Phase at time-since-delay `s`.
    pub fn phase_s(&self, s: f64) -> Phase {
        let c = self.cycle as f64;
        if s < 0.0 {
            return Phase::NotStarted;
        }
        if s > self.active_span() {
            return Phase::Ended { pos: if self.reverse { 0.0 } else { 1.0 } };
        }
        // fmod is exact in IEEE arithmetic, so r is the true remainder even for astronomic s
        let r = s % c;
        let k = ((s - r) / c).round();
        // Hold rule: an exact multiple of the cycle (k >= 1) is the END of cycle k-1.
        let (k, r) = if r == 0.0 && k >= 1.0 { (k - 1.0, c) } else { (k, r) };
        let ratio = r / c;
        let (pos, reversing) = if self.reverse {
            if ratio > 0.5 {
                ((1.0 - ratio) * 2.0, true)
            } else {
                (ratio * 2.0, false)
            }
        } else {
            (ratio, false)
        };
        Phase::Active { pos: pos.clamp(0.0, 1.0), cycle: k as u64, reversing }
    }
}

/// One keyframe as the model sees it for a single property.
#[derive(Clone, Debug)]
pub struct KfIn<E: Clone> {
    pub pos: f64,
    /// value of the property on this keyframe, `None` when the keyframe omits it
    pub value: Option<f64>,
    /// easing given on the keyframe (applies to a property only if the keyframe defines it)
    pub easing: Option<E>,
}

/// A frame of the per-property frame list.
#[derive(Clone, Debug)]
pub struct Frame<E: Clone> {
    pub pos: f64,
    pub value: f64,
    pub easing: E,
    pub synthetic: bool,
    /// which of default / inherited / own easing is in force (0 default, 1 inherited, 2 own)
    pub easing_src: u8,
}

/// Builds the per-property frame list. `kfs` in *insertion* order; sorted here (stably) by position.
/// Returns an empty list when no keyframe defines the property (property untouched).
pub fn frames<E: Clone>(kfs: &[KfIn<E>], default_value: f64, default_easing: E) -> Vec<Frame<E>> {
    let mut sorted: Vec<&KfIn<E>> = kfs.iter().collect();
    sorted.sort_by(|a, b| a.pos.partial_cmp(&b.pos).unwrap());
    let mut out: Vec<Frame<E>> = Vec::new();
    let mut cur = default_easing.clone();
    let mut cur_src = 0u8;
    for kf in sorted {
        let Some(v) = kf.value else { continue };
        if out.is_empty() && kf.pos > 0.0 {
            out.push(Frame {
                pos: 0.0,
                value: default_value,
                easing: default_easing.clone(),
                synthetic: true,
                easing_src: 0,
            });
        }
        let src = if let Some(e) = &kf.easing {
            cur = e.clone();
            cur_src = 1;
            2
        } else {
            cur_src
        };
        out.push(Frame { pos: kf.pos, value: v, easing: cur.clone(), synthetic: false, easing_src: src });
    }
    if let Some(last) = out.last() {
        if last.pos < 1.0 {
            let mut f = last.clone();
            f.pos = 1.0;
            f.synthetic = true;
            out.push(f);
        }
    }
    out
}

/// Where a position falls in a frame list.
#[derive(Clone, Debug, PartialEq)]
pub enum Locate {
    /// list empty: property untouched
    Untouched,
    /// exactly on frame(s) at this position; `first..=last` indices of the frames at that position
    Hit { first: usize, last: usize },
    /// strictly between frames `i` and `i+1` (which have distinct positions)
    Inside { i: usize },
}

pub fn locate<E: Clone>(fr: &[Frame<E>], pos: f64) -> Locate {
    if fr.is_empty() {
        return Locate::Untouched;
    }
    let pos = pos.clamp(0.0, 1.0);
    let mut first = None;
    let mut last = 0;
    for (i, f) in fr.iter().enumerate() {
        if f.pos == pos {
            if first.is_none() {
                first = Some(i);
            }
            last = i;
        }
    }
    if let Some(first) = first {
        return Locate::Hit { first, last };
    }
    for i in 0..fr.len() - 1 {
        if fr[i].pos < pos && pos < fr[i + 1].pos {
            return Locate::Inside { i };
        }
    }
    // cannot happen: frames always span [0,1]
    Locate::Hit { first: fr.len() - 1, last: fr.len() - 1 }
}

/// Value of a frame, taking the start-value substitution into account (it replaces frame 0's value
/// during the first forward pass only).
pub fn frame_value<E: Clone>(fr: &[Frame<E>], i: usize, start_override: Option<f64>, first_pass: bool) -> f64 {
    if i == 0 && first_pass {
        if let Some(v) = start_override {
            return v;
        }
    }
    fr[i].value
}

/// Result of the model's evaluation of one property.
#[derive(Clone, Debug)]
pub struct Eval {
    /// the (unrounded) model value
    pub value: f64,
    /// endpoints of the segment used (equal for exact hits)
    pub a: f64,
    pub b: f64,
    /// segment width in position units (0 for hits)
    pub width: f64,
    /// fraction of the segment (before easing)
    pub x: f64,
    pub seg: usize,
    pub hit: bool,
    /// hit on a position where more than one frame is defined
    pub ambiguous: bool,
}

/// Evaluates one property at `pos`. `ease(e, x)` evaluates easing `e`.
pub fn eval<E: Clone>(
    fr: &[Frame<E>],
    pos: f64,
    start_override: Option<f64>,
    first_pass: bool,
    ease: &dyn Fn(&E, f64) -> f64,
) -> Option<Eval> {
    match locate(fr, pos) {
        Locate::Untouched => None,
        Locate::Hit { first, last } => {
            // With several frames at one position, the value "belongs" to the last one when coming
            // from the right and the first when coming from the left; callers treat it as ambiguous.
            let v = frame_value(fr, last, start_override, first_pass);
            Some(Eval { value: v, a: v, b: v, width: 0.0, x: 0.0, seg: last, hit: true, ambiguous: first != last })
        }
        Locate::Inside { i } => {
            let a = frame_value(fr, i, start_override, first_pass);
            let b = fr[i + 1].value;
            let width = fr[i + 1].pos - fr[i].pos;
            let x = (pos - fr[i].pos) / width;
            let y = ease(&fr[i].easing, x);
            Some(Eval { value: a * (1.0 - y) + b * y, a, b, width, x, seg: i, hit: false, ambiguous: false })
        }
    }
}

// ---------------------------------------------------------------------------------------------
// Closed-form custom easings (E(0)=0 and E(1)=1 exactly, slope <= 3).

#[derive(Clone, Copy, Debug, PartialEq, Eq, Hash, Serialize, Deserialize)]
pub enum CustomEase {
    Quad,
    Cubic,
    OutQuad,
    Smooth,
}

impl CustomEase {
    pub const ALL: [CustomEase; 4] = [CustomEase::Quad, CustomEase::Cubic, CustomEase::OutQuad, CustomEase::Smooth];
    pub fn f64(&self, x: f64) -> f64 {
        match self {
            CustomEase::Quad => x * x,
            CustomEase::Cubic => x * x * x,
            CustomEase::OutQuad => 1.0 - (1.0 - x) * (1.0 - x),
            CustomEase::Smooth => x * x * (3.0 - 2.0 * x),
        }
    }
    pub fn f32(&self, x: f32) -> f32 {
        match self {
            CustomEase::Quad => x * x,
            CustomEase::Cubic => x * x * x,
            CustomEase::OutQuad => 1.0 - (1.0 - x) * (1.0 - x),
            CustomEase::Smooth => x * x * (3.0 - 2.0 * x),
        }
    }
    pub fn max_slope(&self) -> f64 {
        match self {
            CustomEase::Quad | CustomEase::OutQuad => 2.0,
            CustomEase::Cubic => 3.0,
            CustomEase::Smooth => 1.5,
        }
    }
}

// ---------------------------------------------------------------------------------------------
// CSS cubic-bezier timing function in f64 (for C13) and the "parameter polynomial".

#[derive(Clone, Copy, Debug)]
pub struct Bezier {
    pub x1: f64,
    pub y1: f64,
    pub x2: f64,
    pub y2: f64,
}

impl Bezier {
    fn poly(p1: f64, p2: f64, t: f64) -> f64 {
        let u = 1.0 - t;
        3.0 * u * u * t * p1 + 3.0 * u * t * t * p2 + t * t * t
    }
    fn dpoly(p1: f64, p2: f64, t: f64) -> f64 {
        let u = 1.0 - t;
        3.0 * u * u * p1 + 6.0 * u * t * (p2 - p1) + 3.0 * t * t * (1.0 - p2)
    }
    /// y-polynomial evaluated at curve *parameter* t (what a naive implementation computes).
    pub fn y_at_param(&self, t: f64) -> f64 {
        Self::poly(self.y1, self.y2, t)
    }
    pub fn x_at_param(&self, t: f64) -> f64 {
        Self::poly(self.x1, self.x2, t)
    }
    /// Proper timing function: y at horizontal position x (x(t) monotone for x1,x2 in [0,1]).
    pub fn y_at_x(&self, x: f64) -> f64 {
        if x <= 0.0 {
            return 0.0;
        }
        if x >= 1.0 {
            return 1.0;
        }
        let (mut lo, mut hi) = (0.0f64, 1.0f64);
        let mut t = x;
        for _ in 0..64 {
            let fx = Self::poly(self.x1, self.x2, t) - x;
            if fx.abs() < 1e-15 {
                break;
            }
            if fx > 0.0 {
                hi = t;
            } else {
                lo = t;
            }
            let d = Self::dpoly(self.x1, self.x2, t);
            let mut nt = if d.abs() > 1e-12 { t - fx / d } else { 0.5 * (lo + hi) };
            if !(nt > lo && nt < hi) {
                nt = 0.5 * (lo + hi);
            }
            t = nt;
        }
        Self::poly(self.y1, self.y2, t)
    }
}

/// Published control points (CSS for Ease/In/Out/InOut; easings.net for the rest), by easing name.
pub const PUBLISHED: [(&str, [f64; 4]); 28] = [
    ("Ease", [0.25, 0.1, 0.25, 1.0]),
    ("In", [0.42, 0.0, 1.0, 1.0]),
    ("Out", [0.0, 0.0, 0.58, 1.0]),
    ("InOut", [0.42, 0.0, 0.58, 1.0]),
    ("InSine", [0.12, 0.0, 0.39, 0.0]),
    ("OutSine", [0.61, 1.0, 0.88, 1.0]),
    ("InOutSine", [0.37, 0.0, 0.63, 1.0]),
    ("InQuad", [0.11, 0.0, 0.5, 0.0]),
    ("OutQuad", [0.5, 1.0, 0.89, 1.0]),
    ("InOutQuad", [0.45, 0.0, 0.55, 1.0]),
    ("InCubic", [0.32, 0.0, 0.67, 0.0]),
    ("OutCubic", [0.33, 1.0, 0.68, 1.0]),
    ("InOutCubic", [0.65, 0.0, 0.35, 1.0]),
    ("InQuart", [0.5, 0.0, 0.75, 0.0]),
    ("OutQuart", [0.25, 1.0, 0.5, 1.0]),
    ("InOutQuart", [0.76, 0.0, 0.24, 1.0]),
    ("InQuint", [0.64, 0.0, 0.78, 0.0]),
    ("OutQuint", [0.22, 1.0, 0.36, 1.0]),
    ("InOutQuint", [0.83, 0.0, 0.17, 1.0]),
    ("InExpo", [0.7, 0.0, 0.84, 0.0]),
    ("OutExpo", [0.16, 1.0, 0.3, 1.0]),
    ("InOutExpo", [0.87, 0.0, 0.13, 1.0]),
    ("InCirc", [0.55, 0.0, 1.0, 0.45]),
    ("OutCirc", [0.0, 0.55, 0.45, 1.0]),
    ("InOutCirc", [0.85, 0.0, 0.15, 1.0]),
    ("InBack", [0.36, 0.0, 0.66, -0.56]),
    ("OutBack", [0.34, 1.56, 0.64, 1.0]),
    ("InOutBack", [0.68, -0.6, 0.32, 1.6]),
];

// ---------------------------------------------------------------------------------------------
// Animator model (C05): blend / pause / resume rules over states 0..n.

#[derive(Clone, Debug, PartialEq)]
pub struct AnimModel {
    pub state: usize,
    /// exact time in the current state, nanoseconds
    pub t_ns: u128,
    /// remembered interrupted animation: (state, time in ns)
    pub paused: Option<(usize, u128)>,
    /// which states have a timeline
    pub animated: Vec<bool>,
}

#[derive(Clone, Copy, Debug, PartialEq, Eq)]
pub enum Enter {
    /// set_state to the current state
    Same,
    /// resumed a remembered animation at its remembered time
    Resume,
    /// entered an animated state afresh: blend from current values, t = 0
    Blend,
    /// entered an un-animated state (values freeze)
    Freeze,
}

impl AnimModel {
    pub fn new(animated: Vec<bool>, initial: usize) -> Self {
        AnimModel { state: initial, t_ns: 0, paused: None, animated }
    }
    pub fn advance_ns(&mut self, ns: u128) {
        self.t_ns = self.t_ns.saturating_add(ns);
    }
    pub fn set_state(&mut self, s: usize) -> Enter {
        if s == self.state {
            return Enter::Same;
        }
        if let Some((ps, pt)) = self.paused {
            if ps == s {
                // returning to the interrupted state directly or via un-animated states only
                self.paused = None;
                self.state = s;
                self.t_ns = pt;
                return Enter::Resume;
            }
        }
        let was = self.animated[self.state];
        let will = self.animated[s];
        if was && !will {
            self.paused = Some((self.state, self.t_ns));
        } else if will {
            self.paused = None;
        }
        self.state = s;
        self.t_ns = 0;
        if will { Enter::Blend } else { Enter::Freeze }
    }
}

// ---------------------------------------------------------------------------------------------
// Float helpers shared by checks (pure, no mina).

pub fn ulp32(x: f32) -> f32 {
    let x = x.abs();
    if !x.is_finite() {
        return f32::NAN;
    }
    let b = x.to_bits();
    if b == 0 {
        return f32::from_bits(1);
    }
    let up = f32::from_bits(b + 1);
    if up.is_finite() { up - x } else { x - f32::from_bits(b - 1) }
}

/// Steps `n` representable floats from `x` (n may be negative); crosses zero correctly.
pub fn step32(x: f32, n: i32) -> f32 {
    fn to_ord(x: f32) -> i64 {
        let b = x.to_bits() as i64;
        if b & 0x8000_0000 != 0 { -(b & 0x7fff_ffff) } else { b }
    }
    fn from_ord(o: i64) -> f32 {
        if o < 0 { f32::from_bits(((-o) as u32) | 0x8000_0000) } else { f32::from_bits(o as u32) }
    }
    let o = to_ord(x) + n as i64;
    let o = o.clamp(-(0x7f7f_ffff), 0x7f7f_ffff);
    from_ord(o)
}

/// Distance in representable f32 steps.
pub fn ulps_between(a: f32, b: f32) -> u64 {
    fn to_ord(x: f32) -> i64 {
        let b = x.to_bits() as i64;
        if b & 0x8000_0000 != 0 { -(b & 0x7fff_ffff) } else { b }
    }
    (to_ord(a) - to_ord(b)).unsigned_abs()
}

/// Is the f64 exactly representable as f32?
pub fn exact32(x: f64) -> bool {
    x.is_finite() && (x as f32) as f64 == x
}

#[cfg(test)]
mod tests {
    use super::*;

    #[test]
    fn phase_basics() {
        let t = Timing { cycle: 20.0, delay: 0.0, repeat: Rep::Times(2), reverse: false };
        assert_eq!(t.phase(20.0), Phase::Active { pos: 1.0, cycle: 0, reversing: false });
        assert_eq!(t.phase(60.0), Phase::Active { pos: 1.0, cycle: 2, reversing: false });
        assert_eq!(t.phase(61.0), Phase::Ended { pos: 1.0 });
        let r = Timing { cycle: 10.0, delay: 2.0, repeat: Rep::None, reverse: true };
        assert_eq!(r.phase(1.0), Phase::NotStarted);
        assert_eq!(r.phase(7.0), Phase::Active { pos: 1.0, cycle: 0, reversing: false });
        assert_eq!(r.phase(9.5), Phase::Active { pos: 0.5, cycle: 0, reversing: true });
        assert_eq!(r.phase(12.0), Phase::Active { pos: 0.0, cycle: 0, reversing: true });
    }

    #[test]
    fn bezier_linear() {
        let b = Bezier { x1: 0.25, y1: 0.25, x2: 0.75, y2: 0.75 };
        for i in 0..=100 {
            let x = i as f64 / 100.0;
            assert!((b.y_at_x(x) - x).abs() < 1e-12);
        }
    }
}

//! C14: the lerp laws for every numeric type (+ glam vectors).

use mina::Lerp;
use mv_engine::{Obs, Run, Tier};

use proptest::prelude::*;
use serde::{Deserialize, Serialize};
use serde_json::json;

fn catch<T>(f: impl FnOnce() -> T) -> Result<T, String> {
    std::panic::catch_unwind(std::panic::AssertUnwindSafe(f)).map_err(|p| mv_engine::panic_msg(&p))
}

/// Judges one integer lerp result. `a`,`b` exactly representable in f32 (as f64 here), `x` in [0,1].
/// Error budget of an f32 evaluation of (1-x)*a + x*b against the real interpolation.
fn arith_slack(a: f64, b: f64, x: f64, real: f64) -> f64 {
    2f64.powi(-23) * (a.abs() * (1.0 - x).abs() + b.abs() * x.abs() + real.abs()) + 2f64.powi(-24) * a.abs() + 1.5e-45
}

/// "Monotone in x up to float rounding" for integer results: a decrease by one unit is rounding noise
/// iff both real interpolations lie within the f32 arithmetic slack of a rounding tie (x.5).
fn int_decrease_is_noise(a: f64, b: f64, px: f32, x: f32, pv: f64, got: f64, slack: f64) -> bool {
    if (pv - got).abs() > 1.0 + slack {
        return false;
    }
    let near_tie = |xx: f32| {
        let r = a * (1.0 - xx as f64) + b * xx as f64;
        let fr = (r - r.floor() - 0.5).abs();
        fr <= slack + 1e-9
    };
    near_tie(px) && near_tie(x)
}

fn judge_int(a: f64, b: f64, x: f32, got: f64, wide: bool) -> Result<(), String> {
    let xr = x as f64;
    let real = a * (1.0 - xr) + b * xr; // exact enough in f64: a,b <= 2^64, x 24 bits
    let (lo, hi) = if a <= b { (a, b) } else { (b, a) };
    if x == 0.0 && got != a {
        return Err(format!("lerp({a},{b},0) = {got}, expected {a}"));
    }
    if x == 1.0 && got != b {
        return Err(format!("lerp({a},{b},1) = {got}, expected {b}"));
    }
    // documented: arithmetic is done in f32 (as (1-x)*a + x*b) -> allow its rounding on top of
    // round-to-nearest: each product and the sum to f32 precision of its own size, plus the rounding
    // of (1-x). This is far tighter than "a few ulps of the larger endpoint" when the result is small.
    let _ = wide;
    let slack = arith_slack(a, b, xr, real);
    if (got - real).abs() > 0.5 + slack {
        return Err(format!("lerp({a},{b},{x:?}) = {got}, the real interpolation is {real} (not rounded to nearest; slack {slack:.3e})"));
    }
    if got < lo - slack || got > hi + slack {
        return Err(format!("lerp({a},{b},{x:?}) = {got} is not between the endpoints"));
    }
    Ok(())
}

macro_rules! exhaustive8 {
    ($run:expr, $t:ty, $name:expr, $xs:expr) => {{
        let xs: &Vec<f32> = $xs;
        let min = <$t>::MIN as i32;
        $run.enumerate(
            $name,
            &format!("ALL 65536 (a,b) pairs of {} x {} values of x (k/256 grid incl. 0 and 1, floats adjacent to 0 and 1, seeded random); oracle: no panic, endpoints exact, within 0.5 of the exact rational interpolation, between a and b, monotone in x, lerp(a,a,x)==a; non-trivial = a != b and 0<x<1; all triples distinct", stringify!($t), xs.len()),
            65536,
            256,
            true,
            |range, eo| {
                for idx in range {
                    let a = (min + (idx / 256) as i32) as $t;
                    let b = (min + (idx % 256) as i32) as $t;
                    let mut prev: Option<(f32, $t)> = None;
                    for &x in xs.iter() {
                        let got = match catch(|| a.lerp(&b, x)) {
                            Ok(v) => v,
                            Err(p) => return Err((json!({"index": idx, "type": stringify!($t), "a": a, "b": b, "x": x}), format!("lerp({a},{b},{x:?}) panicked: {p}"))),
                        };
                        if let Err(d) = judge_int(a as f64, b as f64, x, got as f64, false) {
                            return Err((json!({"index": idx, "type": stringify!($t), "a": a, "b": b, "x": x}), d));
                        }
                        if a == b && got != a {
                            return Err((json!({"index": idx, "type": stringify!($t), "a": a, "b": b, "x": x}), format!("lerp({a},{a},{x:?}) = {got}")));
                        }
                        if let Some((px, pv)) = prev {
                            let dec = if b >= a { got < pv } else { got > pv };
                            let m = (a as f64).abs().max((b as f64).abs());
                            if px < x && dec && !int_decrease_is_noise(a as f64, b as f64, px, x, pv as f64, got as f64, 3.0 * 2f64.powi(-24) * (m + 1.0)) {
                                return Err((json!({"index": idx, "type": stringify!($t), "a": a, "b": b, "x": x}), format!("not monotone in x: lerp({a},{b},{px:?}) = {pv} but lerp({a},{b},{x:?}) = {got}")));
                            }
                        }
                        prev = Some((x, got));
                        eo.evaluated += 1;
                        if a != b && x > 0.0 && x < 1.0 {
                            eo.nontrivial += 1;
                        }
                    }
                    if idx % 9973 == 0 {
                        eo.sample(|| json!({"type": stringify!($t), "a": a, "b": b, "x_values": xs.len()}));
                    }
                }
                Ok(())
            },
        );
    }};
}

#[derive(Clone, Debug, Serialize, Deserialize)]
pub struct WideCase {
    /// type selector
    pub ty: u8,
    /// endpoints as f64 values that are exactly representable in f32 and inside the type
    pub a: f64,
    pub b: f64,
    pub xs: Vec<f32>,
}

const TYPES: [&str; 9] = ["i8", "i16", "i32", "i64", "u8", "u16", "u32", "u64", "usize"];

/// the type's limits rounded toward zero to f32-representable values
pub fn repr_limits(ty: u8) -> (f64, f64) {
    match ty % 9 {
        0 => (-128.0, 127.0),
        1 => (-32768.0, 32767.0),
        2 => (-2147483648.0, 2147483520.0),                   // 2^31 - 128
        3 => (-9223372036854775808.0, 9223371487098961920.0), // 2^63 - 2^39
        4 => (0.0, 255.0),
        5 => (0.0, 65535.0),
        6 => (0.0, 4294967040.0),           // 2^32 - 256
        _ => (0.0, 18446742974197923840.0), // 2^64 - 2^40
    }
}

fn do_lerp(ty: u8, a: f64, b: f64, x: f32) -> Result<f64, String> {
    macro_rules! go {
        ($t:ty) => {
            catch(|| (a as $t).lerp(&(b as $t), x) as f64)
        };
    }
    match ty % 9 {
        0 => go!(i8),
        1 => go!(i16),
        2 => go!(i32),
        3 => go!(i64),
        4 => go!(u8),
        5 => go!(u16),
        6 => go!(u32),
        7 => go!(u64),
        _ => go!(usize),
    }
}

pub fn x_strategy() -> impl Strategy<Value = f32> {
    prop_oneof![
        3 => (0u32..=256).prop_map(|k| k as f32 / 256.0),
        3 => 0.0f32..=1.0,
        1 => prop::sample::select(vec![0.0f32, 1.0, f32::from_bits(1), f32::MIN_POSITIVE, 1.0 - f32::EPSILON / 2.0, 0.5, f32::EPSILON]),
        1 => prop::sample::select(vec![1.4901161e-8f32, 2.9802322e-8, 1.0e-9, 1.0e-6, 2.7939677e-9, 3.0e-5, 0.999999, 0.99999994]),
    ]
}

fn wide_strategy() -> impl Strategy<Value = WideCase> {
    (0u8..9).prop_flat_map(|ty| {
        let (lo_r, hi_r) = repr_limits(ty);
        let val = prop_oneof![
            3 => prop::sample::select(vec![0.0f64, 1.0, -1.0, 2.0, 127.0, 128.0, 255.0, 16_777_216.0, 16_777_215.0, 16_777_218.0, -16_777_216.0]),
            3 => Just(lo_r),
            3 => Just(hi_r),
            2 => Just(if hi_r.abs() < 16_777_216.0 { hi_r - 1.0 } else { mv_model::step32(hi_r as f32, -1) as f64 }),
            2 => Just(if lo_r.abs() < 16_777_216.0 { lo_r + 1.0 } else { mv_model::step32(lo_r as f32, 1) as f64 }),
            4 => any::<f32>().prop_map(|f| if f.is_finite() { (f.trunc()) as f64 } else { 0.0 }),
            4 => (0u32..(1 << 24), 0u32..40).prop_map(|(m, e)| m as f64 * 2f64.powi(e as i32)),
            2 => (0u32..(1 << 24), 0u32..40).prop_map(|(m, e)| -(m as f64) * 2f64.powi(e as i32)),
        ]
        .prop_map(move |v| if v < lo_r { lo_r } else if v > hi_r { hi_r } else { v });
        (val.clone(), val, prop::collection::vec(x_strategy(), 8)).prop_map(move |(a, b, mut xs)| {
            xs.sort_by(|p, q| p.partial_cmp(q).unwrap());
            WideCase { ty, a, b, xs }
        })
    })
}

const WIDE_LABELS: [&str; 12] = ["i8", "i16", "i32", "i64", "u8", "u16", "u32", "u64", "usize", "at_type_limit", "beyond_2^24", "a_eq_b"];

pub fn wide_judge(c: &WideCase, obs: &mut Obs) -> Result<(), String> {
    let ty = c.ty % 9;
    obs.label(ty as usize);
    let (lo_r, hi_r) = repr_limits(ty);
    obs.label_if(9, c.a == lo_r || c.a == hi_r || c.b == lo_r || c.b == hi_r);
    obs.label_if(10, c.a.abs() > 16_777_216.0 || c.b.abs() > 16_777_216.0);
    obs.label_if(11, c.a == c.b);
    let wide = c.a.abs() > 16_777_216.0 || c.b.abs() > 16_777_216.0;
    let mut prev: Option<(f32, f64)> = None;
    for &x in &c.xs {
        let got = do_lerp(ty, c.a, c.b, x).map_err(|p| format!("{}::lerp({}, {}, {x:?}) panicked although both endpoints are representable and x is in [0,1]: {p}", TYPES[ty as usize], c.a, c.b))?;
        judge_int(c.a, c.b, x, got, wide).map_err(|e| format!("{}: {e}", TYPES[ty as usize]))?;
        if c.a == c.b && c.a.abs() < 4_194_304.0 && got != c.a {
            return Err(format!("{}::lerp({},{},{x:?}) = {got}", TYPES[ty as usize], c.a, c.a));
        }
        if let Some((px, pv)) = prev {
            let slack = 2.0 * arith_slack(c.a, c.b, x as f64, got);
            let dec = if c.b >= c.a { got < pv - slack } else { got > pv + slack };
            if px < x && dec && !int_decrease_is_noise(c.a, c.b, px, x, pv, got, slack) {
                return Err(format!("{}: not monotone in x: lerp({},{},{px:?}) = {pv} but at {x:?} = {got}", TYPES[ty as usize], c.a, c.b));
            }
        }
        prev = Some((x, got));
        obs.judged += 1;
        if c.a != c.b && x > 0.0 && x < 1.0 {
            obs.nontrivial = true;
        }
    }
    Ok(())
}

#[derive(Clone, Debug, Serialize, Deserialize)]
pub struct FloatCase {
    pub a: f32,
    pub b: f32,
    pub a64: f64,
    pub b64: f64,
    pub xs: Vec<f32>,
    pub vec_a: [f32; 4],
    pub vec_b: [f32; 4],
    pub ivec_a: [i32; 4],
    pub ivec_b: [i32; 4],
}

fn float_strategy() -> impl Strategy<Value = FloatCase> {
    let f = || prop_oneof![3 => -1.0e4f32..1.0e4, 2 => (-100i32..100).prop_map(|v| v as f32), 1 => prop::sample::select(vec![0.0f32, 1.0, -1.0, 1.0e30, -1.0e30, 1.0e-30, 16_777_216.0, 3.0e38, -3.0e38, f32::MAX, f32::MIN]), 1 => any::<f32>().prop_filter("finite", |v| v.is_finite() && v.abs() < 1e37)];
    // f64 endpoints: f32-representable values over the whole exponent range (tiny and huge
    // magnitudes, narrow ranges), plus ordinary ones
    let d = || {
        prop_oneof![
            3 => (-1.0e6f32..1.0e6).prop_map(|v| v as f64),
            1 => prop::sample::select(vec![0.0f64, 1.0, -1.0, 1.25e5, 6.77e5]),
            2 => (-1000i32..1000).prop_map(|v| v as f64),
            3 => any::<f32>().prop_filter("finite", |v| v.is_finite() && v.abs() < 1e37 && (v.abs() > 1e-37 || *v == 0.0)).prop_map(|v| v as f64),
            2 => (-120i32..=120, 1u32..(1 << 24)).prop_map(|(e, m)| m as f64 * 2f64.powi(e - 24)),
        ]
    };
    let i = || prop_oneof![2 => -1000i32..1000, 1 => -(1i32 << 24)..(1 << 24), 1 => Just(i32::MIN), 1 => Just(i32::MAX - 127)];
    (f(), f(), d(), d(), prop::collection::vec(x_strategy(), 6), [f(), f(), f(), f()], [f(), f(), f(), f()], [i(), i(), i(), i()], [i(), i(), i(), i()]).prop_map(|(a, b, a64, b64, mut xs, vec_a, vec_b, ivec_a, ivec_b)| {
        xs.sort_by(|p, q| p.partial_cmp(q).unwrap());
        FloatCase { a, b, a64, b64, xs, vec_a, vec_b, ivec_a, ivec_b }
    })
}

pub fn float_judge(c: &FloatCase, obs: &mut Obs) -> Result<(), String> {
    use glam::*;
    let (a, b) = (c.a, c.b);
    let mut prev: Option<(f32, f32)> = None;
    for &x in &c.xs {
        let got = a.lerp(&b, x);
        if x == 0.0 && got != a {
            return Err(format!("f32 lerp({a:?},{b:?},0) = {got:?}"));
        }
        if x == 1.0 && got != b {
            return Err(format!("f32 lerp({a:?},{b:?},1) = {got:?}"));
        }
        let real = a as f64 * (1.0 - x as f64) + b as f64 * x as f64;
        let tol = arith_slack(a as f64, b as f64, x as f64, real);
        if (got as f64 - real).abs() > tol {
            return Err(format!("f32 lerp({a:?},{b:?},{x:?}) = {got:?}, real interpolation {real} (tolerance {tol:.3e})"));
        }
        let (lo, hi) = if a <= b { (a, b) } else { (b, a) };
        if (got as f64) < lo as f64 - tol || (got as f64) > hi as f64 + tol {
            return Err(format!("f32 lerp({a:?},{b:?},{x:?}) = {got:?} not between the endpoints"));
        }
        if a == b && (got as f64 - a as f64).abs() > tol {
            return Err(format!("f32 lerp({a:?},{a:?},{x:?}) = {got:?}"));
        }
        if let Some((px, pv)) = prev {
            let dec = if b >= a { (got as f64) < pv as f64 - tol } else { (got as f64) > pv as f64 + tol };
            if px < x && dec {
                return Err(format!("f32 lerp not monotone: {pv:?} at {px:?}, {got:?} at {x:?} (a={a:?}, b={b:?})"));
            }
        }
        prev = Some((x, got));
        // f64: agrees with the real interpolation to f32 precision
        let g64 = c.a64.lerp(&c.b64, x);
        let real64 = c.a64 * (1.0 - x as f64) + c.b64 * x as f64;
        let m64 = c.a64.abs().max(c.b64.abs());
        // f32 precision: relative 2^-22 of the larger endpoint, but never finer than the smallest
        // f32 denormal step (the computation goes through f32)
        if (g64 - real64).abs() > 2.0 * arith_slack(c.a64, c.b64, x as f64, real64) {
            return Err(format!("f64 lerp({},{},{x:?}) = {g64}, real interpolation {real64} (beyond f32 precision)", c.a64, c.b64));
        }
        // endpoints are exactly representable in f32 here, so the laws hold exactly
        let _ = m64;
        if x == 0.0 && g64 != c.a64 {
            return Err(format!("f64 lerp({},{},0) = {g64}", c.a64, c.b64));
        }
        if x == 1.0 && g64 != c.b64 {
            return Err(format!("f64 lerp({},{},1) = {g64}", c.a64, c.b64));
        }
        // glam vectors: component-wise == the scalar implementation, bit for bit
        let (va, vb) = (c.vec_a, c.vec_b);
        let sc: Vec<f32> = (0..4).map(|i| va[i].lerp(&vb[i], x)).collect();
        macro_rules! cmpf {
            ($name:expr, $got:expr, $n:expr) => {
                let g = $got;
                for i in 0..$n {
                    if g[i].to_bits() != sc[i].to_bits() && !(g[i] == 0.0 && sc[i] == 0.0) {
                        return Err(format!("{} lerp component {i} = {:?}, scalar lerp gives {:?} (a={:?}, b={:?}, x={x:?})", $name, g[i], sc[i], va, vb));
                    }
                }
            };
        }
        cmpf!("Vec2", <Vec2 as Lerp>::lerp(&Vec2::new(va[0], va[1]), &Vec2::new(vb[0], vb[1]), x).to_array(), 2);
        cmpf!("Vec3", <Vec3 as Lerp>::lerp(&Vec3::new(va[0], va[1], va[2]), &Vec3::new(vb[0], vb[1], vb[2]), x).to_array(), 3);
        cmpf!("Vec3A", <Vec3A as Lerp>::lerp(&Vec3A::new(va[0], va[1], va[2]), &Vec3A::new(vb[0], vb[1], vb[2]), x).to_array(), 3);
        cmpf!("Vec4", <Vec4 as Lerp>::lerp(&Vec4::from_array(va), &Vec4::from_array(vb), x).to_array(), 4);
        let (da, db): (Vec<f64>, Vec<f64>) = (va.iter().map(|v| *v as f64 * 1.5).collect(), vb.iter().map(|v| *v as f64 * 0.75).collect());
        let scd: Vec<f64> = (0..4).map(|i| da[i].lerp(&db[i], x)).collect();
        macro_rules! cmpd {
            ($name:expr, $got:expr, $n:expr) => {
                let g = $got;
                for i in 0..$n {
                    if g[i].to_bits() != scd[i].to_bits() && !(g[i] == 0.0 && scd[i] == 0.0) {
                        return Err(format!("{} lerp component {i} = {:?}, scalar lerp gives {:?}", $name, g[i], scd[i]));
                    }
                }
            };
        }
        cmpd!("DVec2", <DVec2 as Lerp>::lerp(&DVec2::new(da[0], da[1]), &DVec2::new(db[0], db[1]), x).to_array(), 2);
        cmpd!("DVec3", <DVec3 as Lerp>::lerp(&DVec3::new(da[0], da[1], da[2]), &DVec3::new(db[0], db[1], db[2]), x).to_array(), 3);
        cmpd!("DVec4", <DVec4 as Lerp>::lerp(&DVec4::new(da[0], da[1], da[2], da[3]), &DVec4::new(db[0], db[1], db[2], db[3]), x).to_array(), 4);
        // rotations: Quat / DQuat are not component-wise (they delegate to glam's normalising lerp, which
        // first brings the end point into the hemisphere of the start); all that is asserted is what every
        // property asks of any interpolation: finite input rotations give a finite, unit-length rotation -
        // also for q -> -q (the same rotation) and for turns of more than 180 degrees
        {
            let unit = |v: [f32; 4]| -> Option<Quat> {
                let q = Vec4::from_array(v);
                let l = q.length();
                if l.is_finite() && l > 1.0e-3 && l < 1.0e6 { Some(Quat::from_vec4(q / l)) } else { None }
            };
            if let (Some(qa), Some(qb)) = (unit(va), unit(vb)) {
                for (name, a, b) in [("a->b", qa, qb), ("a->-a", qa, Quat::from_vec4(-Vec4::from(qa))), ("a->-b", qa, Quat::from_vec4(-Vec4::from(qb)))] {
                    let r = <Quat as Lerp>::lerp(&a, &b, x);
                    let l = Vec4::from(r).length();
                    if !(r.is_finite() && (l - 1.0).abs() < 1.0e-3) {
                        return Err(format!("Quat lerp {name}: lerp({a:?}, {b:?}, {x:?}) = {r:?} (length {l}) is not a finite unit rotation"));
                    }
                    let rd = <DQuat as Lerp>::lerp(&a.as_f64(), &b.as_f64(), x);
                    if !(rd.is_finite() && (rd.length() - 1.0).abs() < 1.0e-3) {
                        return Err(format!("DQuat lerp {name}: lerp({a:?}, {b:?}, {x:?}) = {rd:?} is not a finite unit rotation"));
                    }
                }
            }
        }
        // integer vectors
        let (ia, ib) = (c.ivec_a, c.ivec_b);
        let sci: Vec<i32> = match catch(|| (0..4).map(|i| ia[i].lerp(&ib[i], x)).collect::<Vec<i32>>()) {
            Ok(v) => v,
            Err(p) => return Err(format!("i32 lerp panicked for representable endpoints {:?} {:?} x={x:?}: {p}", ia, ib)),
        };
        let gi = <IVec4 as Lerp>::lerp(&IVec4::from_array(ia), &IVec4::from_array(ib), x).to_array();
        if gi.to_vec() != sci {
            return Err(format!("IVec4 lerp {:?} differs from scalar {:?}", gi, sci));
        }
        let gi3 = <IVec3 as Lerp>::lerp(&IVec3::new(ia[0], ia[1], ia[2]), &IVec3::new(ib[0], ib[1], ib[2]), x).to_array();
        let gi2 = <IVec2 as Lerp>::lerp(&IVec2::new(ia[0], ia[1]), &IVec2::new(ib[0], ib[1]), x).to_array();
        if gi3.to_vec() != sci[..3] || gi2.to_vec() != sci[..2] {
            return Err(format!("IVec2/3 lerp differs from scalar {:?}", sci));
        }
        let ua: Vec<u32> = ia.iter().map(|v| v.unsigned_abs() & 0x00ff_ffff).collect();
        let ub: Vec<u32> = ib.iter().map(|v| v.unsigned_abs() & 0x00ff_ffff).collect();
        let scu: Vec<u32> = (0..4).map(|i| ua[i].lerp(&ub[i], x)).collect();
        let gu = <UVec4 as Lerp>::lerp(&UVec4::new(ua[0], ua[1], ua[2], ua[3]), &UVec4::new(ub[0], ub[1], ub[2], ub[3]), x).to_array();
        let gu3 = <UVec3 as Lerp>::lerp(&UVec3::new(ua[0], ua[1], ua[2]), &UVec3::new(ub[0], ub[1], ub[2]), x).to_array();
        let gu2 = <UVec2 as Lerp>::lerp(&UVec2::new(ua[0], ua[1]), &UVec2::new(ub[0], ub[1]), x).to_array();
        if gu.to_vec() != scu || gu3.to_vec() != scu[..3] || gu2.to_vec() != scu[..2] {
            return Err(format!("UVec lerp differs from scalar {:?}", scu));
        }
        let la: Vec<i64> = ia.iter().map(|v| *v as i64).collect();
        let lb: Vec<i64> = ib.iter().map(|v| *v as i64).collect();
        let scl: Vec<i64> = (0..4).map(|i| la[i].lerp(&lb[i], x)).collect();
        let gl = <I64Vec4 as Lerp>::lerp(&I64Vec4::new(la[0], la[1], la[2], la[3]), &I64Vec4::new(lb[0], lb[1], lb[2], lb[3]), x).to_array();
        let gl3 = <I64Vec3 as Lerp>::lerp(&I64Vec3::new(la[0], la[1], la[2]), &I64Vec3::new(lb[0], lb[1], lb[2]), x).to_array();
        let gl2 = <I64Vec2 as Lerp>::lerp(&I64Vec2::new(la[0], la[1]), &I64Vec2::new(lb[0], lb[1]), x).to_array();
        if gl.to_vec() != scl || gl3.to_vec() != scl[..3] || gl2.to_vec() != scl[..2] {
            return Err(format!("I64Vec lerp differs from scalar {:?}", scl));
        }
        let wa: Vec<u64> = ua.iter().map(|v| *v as u64).collect();
        let wb: Vec<u64> = ub.iter().map(|v| *v as u64).collect();
        let scw: Vec<u64> = (0..4).map(|i| wa[i].lerp(&wb[i], x)).collect();
        let gw = <U64Vec4 as Lerp>::lerp(&U64Vec4::new(wa[0], wa[1], wa[2], wa[3]), &U64Vec4::new(wb[0], wb[1], wb[2], wb[3]), x).to_array();
        let gw3 = <U64Vec3 as Lerp>::lerp(&U64Vec3::new(wa[0], wa[1], wa[2]), &U64Vec3::new(wb[0], wb[1], wb[2]), x).to_array();
        let gw2 = <U64Vec2 as Lerp>::lerp(&U64Vec2::new(wa[0], wa[1]), &U64Vec2::new(wb[0], wb[1]), x).to_array();
        if gw.to_vec() != scw || gw3.to_vec() != scw[..3] || gw2.to_vec() != scw[..2] {
            return Err(format!("U64Vec lerp differs from scalar {:?}", scw));
        }
        obs.judged += 1;
        if a != b && x > 0.0 && x < 1.0 {
            obs.nontrivial = true;
        }
    }
    Ok(())
}

/// The generated and enumerated lerp checks themselves (run by the release parent and, with a smaller
/// budget, by the dbg-profile child: overflow checks and debug assertions ON).
fn c14_checks(run: &mut Run) {
    run.assume("the crate documents that interpolation arithmetic is done in f32: for integers above 2^24 and for floats the laws are asserted up to 2 ulp(f32) of the larger endpoint; Quat/DQuat delegate to glam's normalising lerp and are not component-wise: only finiteness and unit length are asserted for them");
    // x values for the exhaustive 8-bit sweep
    let mut xs: Vec<f32> = (0..=256).map(|k| k as f32 / 256.0).collect();
    xs.extend([f32::from_bits(1), f32::MIN_POSITIVE, f32::EPSILON, 1.0 - f32::EPSILON / 2.0, 1.0 - f32::EPSILON, 0.5 - f32::EPSILON / 4.0, 0.5 + f32::EPSILON / 2.0]);
    // seeded extra values (deterministic function of VERIF_SEED; no RNG of our own beyond a hash)
    let mut h = run.seed.wrapping_mul(0x9E3779B97F4A7C15) ^ 0xD1B54A32D192ED03;
    let extra = if run.tier == Tier::Quick { 64 } else { 768 };
    for _ in 0..extra {
        h ^= h << 13;
        h ^= h >> 7;
        h ^= h << 17;
        xs.push((h >> 40) as f32 / (1u64 << 24) as f32);
    }
    xs.sort_by(|a, b| a.partial_cmp(b).unwrap());
    xs.dedup();
    exhaustive8!(run, i8, "c14_i8_exhaustive", &xs);
    exhaustive8!(run, u8, "c14_u8_exhaustive", &xs);
    // 16-bit: all pairs of 512 boundary/spread values x grid
    let grid: Vec<f32> = (0..=32).map(|k| k as f32 / 32.0).collect();
    let mut v16: Vec<i32> = vec![];
    for k in 0..512 {
        v16.push(((k as i64 * 65535) / 511) as i32);
    }
    for special in [0, 1, 2, 255, 256, 257, 32767, 32768, 32769, 65534, 65535] {
        v16.push(special);
    }
    v16.sort();
    v16.dedup();
    let n16 = v16.len() as u64;
    for signed in [false, true] {
        let v16 = v16.clone();
        let grid = grid.clone();
        run.enumerate(
            if signed { "c14_i16_pairs" } else { "c14_u16_pairs" },
            "all ordered pairs of ~520 values spread over the 16-bit range (incl. both limits and their neighbours) x 33 grid values of x; same oracle as the 8-bit sweep; exhaustive over that set",
            n16 * n16,
            n16,
            true,
            |range, eo| {
                for idx in range {
                    let (ai, bi) = (v16[(idx / n16) as usize], v16[(idx % n16) as usize]);
                    let (a, b) = if signed { ((ai - 32768) as f64, (bi - 32768) as f64) } else { (ai as f64, bi as f64) };
                    let mut prev: Option<(f32, f64)> = None;
                    for &x in &grid {
                        let got = if signed { catch(|| (a as i16).lerp(&(b as i16), x) as f64) } else { catch(|| (a as u16).lerp(&(b as u16), x) as f64) };
                        let got = match got {
                            Ok(g) => g,
                            Err(p) => return Err((json!({"index": idx, "a": a, "b": b, "x": x}), format!("16-bit lerp({a},{b},{x}) panicked: {p}"))),
                        };
                        if let Err(d) = judge_int(a, b, x, got, false) {
                            return Err((json!({"index": idx, "a": a, "b": b, "x": x}), d));
                        }
                        if let Some((px, pv)) = prev {
                            let m = a.abs().max(b.abs());
                            if ((b >= a && got < pv) || (b < a && got > pv)) && !int_decrease_is_noise(a, b, px, x, pv, got, 3.0 * 2f64.powi(-24) * (m + 1.0)) {
                                return Err((json!({"index": idx, "a": a, "b": b, "x": x}), format!("16-bit lerp not monotone at x={x}: {pv} then {got}")));
                            }
                        }
                        prev = Some((x, got));
                        eo.evaluated += 1;
                        if a != b && x > 0.0 && x < 1.0 {
                            eo.nontrivial += 1;
                        }
                    }
                    if idx % 50021 == 0 {
                        eo.sample(|| json!({"signed": signed, "a": a, "b": b}));
                    }
                }
                Ok(())
            },
        );
    }
    // the type limits, densely in x: the place where f32 rounding could push the result out of range
    let nx: u64 = if run.tier == Tier::Quick { 1 << 16 } else { 1 << 22 };
    run.enumerate(
        "c14_limits_dense",
        "for each of the 9 integer types: endpoint pairs (max,max), (max,max-neighbour), (min,max), (max,min), (0,max) with max/min the type limits rounded toward zero to f32-representable values, x = k/2^n for ALL k; oracle: no panic + the integer laws; exhaustive over that grid",
        9 * 5 * (nx + 1),
        1 << 12,
        true,
        |range, eo| {
            for idx in range {
                let ty = (idx / (5 * (nx + 1))) as u8;
                let pair = (idx / (nx + 1)) % 5;
                let k = idx % (nx + 1);
                let x = k as f32 / nx as f32;
                let (lo, hi) = repr_limits(ty);
                let hn = if hi.abs() < 16_777_216.0 { hi - 1.0 } else { mv_model::step32(hi as f32, -1) as f64 };
                let (a, b) = [(hi, hi), (hi, hn), (lo, hi), (hi, lo), (0.0, hi)][pair as usize];
                let got = match do_lerp(ty, a, b, x) {
                    Ok(g) => g,
                    Err(p) => return Err((json!({"index": idx, "type": TYPES[ty as usize], "a": a, "b": b, "x": x}), format!("{}::lerp({a},{b},{x:?}) panicked: {p}", TYPES[ty as usize]))),
                };
                if let Err(d) = judge_int(a, b, x, got, a.abs().max(b.abs()) > 16_777_216.0) {
                    return Err((json!({"index": idx, "type": TYPES[ty as usize], "a": a, "b": b, "x": x}), d));
                }
                eo.evaluated += 1;
                if a != b && k != 0 && k != nx {
                    eo.nontrivial += 1;
                }
                if k == nx / 3 {
                    eo.sample(|| json!({"type": TYPES[ty as usize], "a": a, "b": b, "x": x, "got": got}));
                }
            }
            Ok(())
        },
    );
    let cases = run.tier.pick(1_600_000, 100_000_000);
    run.prop(
        "c14_wide_ints",
        "proptest: type in {i8..usize} x endpoints from f32-representable boundary values (0, +-1, 2^24 neighbours, the type's limits rounded toward zero and their neighbours) and random representable values x 8 sorted x in [0,1]; oracle: no panic, endpoints exact, |got - real| <= 0.5 (+ documented f32 slack above 2^24), between endpoints, monotone; non-trivial = a != b and 0<x<1",
        &WIDE_LABELS,
        wide_strategy(),
        cases,
        wide_judge,
    );
    for l in ["i32", "i64", "u32", "u64", "usize", "at_type_limit", "beyond_2^24"] {
        run.require_label("c14_wide_ints", l, 0.05);
    }
    run.prop(
        "c14_floats_and_vectors",
        "proptest: f32/f64 endpoints x 6 sorted x; oracle: endpoints exact, within 2 ulp of the real interpolation, between endpoints, monotone; f64 agrees to 2^-22 relative; every glam vector type (Vec2/3/3A/4, DVec2/3/4, IVec2/3/4, UVec2/3/4, I64Vec2/3/4, U64Vec2/3/4) equals the scalar implementation component-wise bit-for-bit; non-trivial = a != b and 0<x<1",
        &[],
        float_strategy(),
        run.tier.pick(800_000, 25_000_000),
        float_judge,
    );
}

/// child mode (dbg build): `core c14-child <tier> <stats-file>`
pub fn c14_child(args: &[String]) -> i32 {
    let tier = if args.get(1).map(|s| s.as_str()) == Some("thorough") { "thorough" } else { "quick" };
    let mut run = Run::from_args(&["C14".to_string(), tier.to_string()]).unwrap();
    c14_checks(&mut run);
    let names = ["c14_i8_exhaustive", "c14_u8_exhaustive", "c14_u16_pairs", "c14_i16_pairs", "c14_limits_dense", "c14_wide_ints", "c14_floats_and_vectors"];
    let subs: serde_json::Map<String, serde_json::Value> = names.iter().map(|n| (n.to_string(), run.sub_summary(n))).filter(|(_, v)| !v.is_null()).collect();
    let v = run.violation_count();
    if let Some(p) = args.get(2) {
        let _ = std::fs::write(p, serde_json::to_string(&json!({"violations": v, "subs": subs})).unwrap());
    }
    if v > 0 { 1 } else { 0 }
}

pub fn c14(run: &mut Run) {
    c14_checks(run);
    if run.is_replay() {
        return;
    }
    // ---- the same checks under the debug profile ("never panics": an arithmetic overflow is a panic
    // wherever overflow checks are on, which is the default for `cargo build` / `cargo test`)
    let root = mv_engine::verif_root();
    let dbg_bin = root.join("harness/target/dbg/core");
    if !dbg_bin.exists() {
        run.health_fail(format!("debug-profile binary {} missing (run ./run setup)", dbg_bin.display()));
        return;
    }
    let stats = root.join("work").join(format!("c14-dbg-{}.json", std::process::id()));
    let _ = std::fs::create_dir_all(root.join("work"));
    let t0 = std::time::Instant::now();
    let child = std::process::Command::new(&dbg_bin).arg("c14-child").arg(run.tier.name()).arg(&stats).env("VERIF_SEED", run.seed.to_string()).env("VERIF_SCALE", "25").output();
    match child {
        Err(e) => run.health_fail(format!("cannot run {}: {e}", dbg_bin.display())),
        Ok(o) => {
            for l in String::from_utf8_lossy(&o.stdout).lines() {
                if l.starts_with("VIOLATION ") || l.starts_with("  check=") {
                    println!("{l}");
                }
            }
            let code = o.status.code().unwrap_or(2);
            if code == 1 {
                run.note_external_violation("c14_debug_profile", "violation found by the debug-profile leg (see VIOLATION line above)");
            } else if code != 0 {
                run.health_fail(format!("debug-profile leg exited with {code}: {}", String::from_utf8_lossy(&o.stderr).chars().take(600).collect::<String>()));
            }
            if let Ok(st) = std::fs::read_to_string(&stats) {
                if let Ok(v) = serde_json::from_str::<serde_json::Value>(&st) {
                    let (mut cases, mut distinct, mut samples) = (0u64, 0u64, vec![]);
                    if let Some(m) = v["subs"].as_object() {
                        for (k, s) in m {
                            cases += s["cases"].as_u64().unwrap_or(0);
                            distinct += s["distinct_nontrivial"].as_u64().unwrap_or(0);
                            if let Some(x) = s["samples"].as_array().and_then(|a| a.first()) {
                                samples.push(json!({"sub": k, "case": x}));
                            }
                        }
                    }
                    run.external(
                        "c14_debug_profile",
                        "the same enumerations and proptest checks, dbg build (child process)",
                        "every sub-check of this property run again by the dbg build of this program (opt-level 1, debug assertions and overflow checks ON; proptest budgets at 25 %): a lerp that overflows an intermediate only panics there; counts are the child's own (cases, distinct non-trivial) summed over its sub-checks",
                        cases,
                        distinct,
                        samples,
                        t0.elapsed().as_secs_f64(),
                    );
                }
            }
            let _ = std::fs::remove_file(&stats);
        }
    }
    crate::fuzzdrv::campaign(run, "fz_c14", 38_400_000);
    crate::fuzzdrv::campaign(run, "fz_c14f", 38_400_000);
}

//! C13: easing curves.

use mv_core::desc::*;
use mina::prelude::*;
use mina::EasingFunction;
use mv_engine::{Run, Tier};
use mv_model::{Bezier, PUBLISHED};
use serde_json::json;
use std::sync::atomic::{AtomicU64, Ordering};
use std::sync::Mutex;

const EPS1: f64 = 4.8e-7; // 4 ulp at 1.0

fn published(name: &str) -> Option<Bezier> {
    PUBLISHED.iter().find(|(n, _)| *n == name).map(|(_, p)| Bezier { x1: p[0], y1: p[1], x2: p[2], y2: p[3] })
}

/// pairs (In, Out) that must be point mirrors of each other; InOut curves that must be self-mirrored
const PAIRS: [(Ez, Ez); 9] = [
    (Ez::In, Ez::Out), (Ez::InSine, Ez::OutSine), (Ez::InQuad, Ez::OutQuad), (Ez::InCubic, Ez::OutCubic), (Ez::InQuart, Ez::OutQuart),
    (Ez::InQuint, Ez::OutQuint), (Ez::InExpo, Ez::OutExpo), (Ez::InCirc, Ez::OutCirc), (Ez::InBack, Ez::OutBack),
];
const SELF_MIRROR: [Ez; 10] = [Ez::Linear, Ez::InOut, Ez::InOutSine, Ez::InOutQuad, Ez::InOutCubic, Ez::InOutQuart, Ez::InOutQuint, Ez::InOutExpo, Ez::InOutCirc, Ez::InOutBack];

#[derive(Debug)]
struct CountingEase {
    calls: std::sync::Arc<AtomicU64>,
    bad_arg: std::sync::Arc<AtomicU64>,
}
impl Clone for CountingEase {
    fn clone(&self) -> Self {
        CountingEase { calls: self.calls.clone(), bad_arg: self.bad_arg.clone() }
    }
}
impl EasingFunction for CountingEase {
    fn calc(&self, x: f32) -> f32 {
        self.calls.fetch_add(1, Ordering::Relaxed);
        if !(0.0..=1.0).contains(&x) {
            self.bad_arg.fetch_add(1, Ordering::Relaxed);
        }
        // a deliberately odd but exactly computable shape that leaves [0,1] on both sides: it dips
        // to -0.25 and overshoots to ~1.01 before landing on 1 ("a custom easing is used as given")
        if x < 0.25 {
            -x
        } else {
            let u = (x - 0.25) / 0.75;
            -0.25 + 1.25 * u * (2.2 - 1.2 * u)
        }
    }
}

/// Custom functions that are deliberately not anchored at (0,0) / (1,1).
#[derive(Clone, Debug)]
struct ShapeEase(u8);
impl EasingFunction for ShapeEase {
    fn calc(&self, x: f32) -> f32 {
        match self.0 {
            0 => ((x * 4.0).floor() + 1.0).min(4.0) / 4.0,
            1 => 0.5,
            _ => 1.0 - x,
        }
    }
}

/// classification of one variant against its definition
#[derive(Default, Debug)]
struct VariantClass {
    conform_fail: Option<(f32, f32, f64, f64)>,
    signature_fail: Option<(f32, f32, f64, f64)>,
    max_css_dev: f64,
    max_param_dev: f64,
}

pub fn c13(run: &mut Run) {
    run.assume("published control points: CSS Values for Ease/In/Out/InOut, easings.net cubic-bezier values for the rest (table PUBLISHED in mv-model)");
    let quick = run.tier == Tier::Quick;
    // x samples: quick = 2^20 evenly spaced + 4096 floats nearest 0 and nearest 1; thorough = every f32 in [0,1]
    let one_bits = 1.0f32.to_bits() as u64; // 0x3f800000
    let n_per: u64 = if quick { (1 << 24) + 1 + 2 * 4096 } else { one_bits + 1 };
    let x_of = move |k: u64| -> f32 {
        if quick {
            if k <= 1 << 24 {
                k as f32 / (1u64 << 24) as f32
            } else if k <= (1 << 24) + 4096 {
                f32::from_bits((k - (1 << 24)) as u32) // denormals / tiniest floats next to 0
            } else {
                f32::from_bits((one_bits - 4096 + (k - (1 << 24) - 4096)) as u32) // floats just below 1, ascending to 1
            }
        } else {
            f32::from_bits(k as u32)
        }
    };
    let classes: Vec<Mutex<VariantClass>> = (0..BUILTINS.len()).map(|_| Mutex::new(VariantClass::default())).collect();
    let total = n_per * BUILTINS.len() as u64;
    let chunk: u64 = 1 << 16;
    run.enumerate(
        "c13_curves",
        &format!(
            "all 29 built-in easings x {} x in [0,1]; oracle: calc(0)==0, calc(1)==1 exactly; non-Back within [0,1] (4 ulp) and non-decreasing between consecutive samples (4 ulp); Linear identity bitwise; definition: |calc - CSS cubic-bezier(x)| <= 2e-5 (f64 solve) else classified against the parameter-evaluation signature; non-trivial = x not in {{0,1}}; every (easing, x) distinct",
            if quick { "2^24+1 evenly spaced values plus the 4096 floats nearest 0 and nearest 1" } else { "EVERY f32" }
        ),
        total,
        chunk,
        !quick,
        |range, eo| {
            let mut local: Vec<VariantClass> = (0..BUILTINS.len()).map(|_| VariantClass::default()).collect();
            let mut prev: Option<(usize, f32, f32)> = None;
            if range.start > 0 {
                // carry the last sample of the previous chunk so that monotonicity is checked across chunks
                let pi = range.start - 1;
                let (pv, pk) = ((pi / n_per) as usize, pi % n_per);
                let px = x_of(pk);
                prev = Some((pv, px, BUILTINS[pv].to_mina().calc(px)));
            }
            for idx in range {
                let vi = (idx / n_per) as usize;
                let k = idx % n_per;
                let ez = BUILTINS[vi];
                let e = ez.to_mina();
                let x = x_of(k);
                let y = e.calc(x);
                let fail = |d: String| (json!({"index": idx, "easing": ez.name(), "x": x, "y": y}), d);
                if x == 0.0 && y != 0.0 {
                    return Err(fail(format!("{:?}.calc(0) = {y:?}, expected exactly 0", ez)));
                }
                if x == 1.0 && y != 1.0 {
                    return Err(fail(format!("{:?}.calc(1) = {y:?}, expected exactly 1", ez)));
                }
                if !y.is_finite() {
                    return Err(fail(format!("{:?}.calc({x:?}) = {y:?}", ez)));
                }
                if ez == Ez::Linear && y.to_bits() != x.to_bits() {
                    return Err(fail(format!("Linear.calc({x:?}) = {y:?}, expected the identity")));
                }
                if !ez.is_back() {
                    if (y as f64) < -EPS1 || (y as f64) > 1.0 + EPS1 {
                        return Err(fail(format!("{:?}.calc({x:?}) = {y:?} leaves [0,1]", ez)));
                    }
                    // monotone between consecutive samples of this chunk (samples ascend within the
                    // evenly spaced part and within each neighbourhood)
                    if let Some((pv, px, py)) = prev {
                        if pv == vi && px < x && (y as f64) < py as f64 - EPS1 * (py.abs() as f64).max(2f64.powi(-20)) - 1e-37 {
                            return Err(fail(format!("{:?} decreases: calc({px:?}) = {py:?} but calc({x:?}) = {y:?}", ez)));
                        }
                    }
                }
                prev = Some((vi, x, y));
                // definition (every 16th sample in the thorough tier)
                if ez != Ez::Linear && (quick || k % 16 == 0 || k + 64 > n_per) {
                    let b = published(&ez.name()).unwrap();
                    let css = b.y_at_x(x as f64);
                    let par = b.y_at_param(x as f64);
                    let dc = (y as f64 - css).abs();
                    let dp = (y as f64 - par).abs();
                    let c = &mut local[vi];
                    c.max_css_dev = c.max_css_dev.max(dc);
                    c.max_param_dev = c.max_param_dev.max(dp);
                    if dc > 2e-5 && c.conform_fail.is_none() {
                        c.conform_fail = Some((x, y, css, par));
                    }
                    if dp > 1e-6 && c.signature_fail.is_none() {
                        c.signature_fail = Some((x, y, css, par));
                    }
                }
                eo.evaluated += 1;
                if x != 0.0 && x != 1.0 {
                    eo.nontrivial += 1;
                }
                if k == n_per / 3 {
                    eo.sample(|| json!({"easing": ez.name(), "x": x, "y": y}));
                }
            }
            for (vi, l) in local.into_iter().enumerate() {
                if l.max_css_dev == 0.0 && l.max_param_dev == 0.0 && l.conform_fail.is_none() {
                    continue;
                }
                let mut c = classes[vi].lock().unwrap();
                c.max_css_dev = c.max_css_dev.max(l.max_css_dev);
                c.max_param_dev = c.max_param_dev.max(l.max_param_dev);
                if c.conform_fail.is_none() {
                    c.conform_fail = l.conform_fail;
                }
                if c.signature_fail.is_none() {
                    c.signature_fail = l.signature_fail;
                }
            }
            Ok(())
        },
    );
    if run.is_replay() {
        return;
    }
    // ---- definition verdict per variant
    let mut conforming = vec![];
    let mut param_eval = vec![];
    for (vi, ez) in BUILTINS.iter().enumerate() {
        if *ez == Ez::Linear {
            continue;
        }
        let c = classes[vi].lock().unwrap();
        if c.conform_fail.is_none() {
            conforming.push(ez.name());
        } else if c.signature_fail.is_none() {
            param_eval.push(ez.name());
        } else {
            let (x, y, css, par) = c.signature_fail.unwrap();
            run.record_violation(mv_engine::Violation {
                check: "c13_definition".into(),
                case: json!({"easing": ez.name(), "x": x}),
                detail: format!("{:?}.calc({x:?}) = {y:?} matches neither the published cubic-bezier timing function ({css}) nor the known parameter-evaluation signature ({par})", ez),
            });
        }
    }
    run.extra("definition_conforming", json!(conforming));
    run.extra("definition_parameter_evaluation_signature", json!(param_eval));
    if !param_eval.is_empty() {
        // known finding D5: keyed on the signature AND on the list of variants in the findings file
        let listed: Vec<String> = mv_engine::load_known_findings()
            .iter()
            .filter(|k| k.property == "C13" && k.key == "easing-param-eval")
            .flat_map(|k| k.text.split_whitespace().find_map(|t| t.strip_prefix("variants=").map(|v| v.split(',').map(|s| s.to_string()).collect::<Vec<_>>())).unwrap_or_default())
            .collect();
        let unlisted: Vec<&String> = param_eval.iter().filter(|v| !listed.contains(v)).collect();
        if run.is_known("easing-param-eval") && unlisted.is_empty() {
            run.report_known(
                "easing-param-eval",
                &format!("{} built-in easings evaluate the Bezier y-polynomial at parameter t=x instead of the timing function at abscissa x: {}", param_eval.len(), param_eval.join(",")),
            );
        } else {
            let ez = unlisted.first().map(|s| s.to_string()).unwrap_or_else(|| param_eval[0].clone());
            let vi = BUILTINS.iter().position(|e| e.name() == ez).unwrap();
            let c = classes[vi].lock().unwrap();
            let (x, y, css, par) = c.conform_fail.unwrap();
            run.record_violation(mv_engine::Violation {
                check: "c13_definition".into(),
                case: json!({"easing": ez, "x": x}),
                detail: format!("{ez}.calc({x:?}) = {y:?}; the published cubic-bezier timing function gives {css} at x (the value equals the y-polynomial at parameter t=x: {par}); variants showing this and not listed as known: {:?}", unlisted),
            });
        }
    }
    // ---- mirror symmetry on a grid where 1-x is exact
    let grid: u64 = if quick { 1 << 16 } else { 1 << 22 };
    run.enumerate(
        "c13_mirror",
        "In/Out pairs: out(x) == 1 - in(1-x); InOut curves and Linear: f(x) == 1 - f(1-x); x = k/2^n (1-x exact); tolerance 8 ulp of 1.0; every (pair, x) distinct; non-trivial = x not in {0,1}",
        (PAIRS.len() + SELF_MIRROR.len()) as u64 * (grid + 1),
        1 << 14,
        true,
        |range, eo| {
            for idx in range {
                let which = (idx / (grid + 1)) as usize;
                let k = idx % (grid + 1);
                let x = k as f32 / grid as f32;
                let (a, b) = if which < PAIRS.len() { PAIRS[which] } else { (SELF_MIRROR[which - PAIRS.len()], SELF_MIRROR[which - PAIRS.len()]) };
                let lhs = b.to_mina().calc(x) as f64;
                let rhs = 1.0 - a.to_mina().calc(1.0 - x) as f64;
                if (lhs - rhs).abs() > 8.0 * 1.1920929e-7 {
                    return Err((json!({"index": idx, "a": a.name(), "b": b.name(), "x": x}), format!("mirror symmetry broken: {:?}.calc({x}) = {lhs} but 1 - {:?}.calc(1-{x}) = {rhs}", b, a)));
                }
                eo.evaluated += 1;
                if k != 0 && k != grid {
                    eo.nontrivial += 1;
                }
                if k == grid / 3 {
                    eo.sample(|| json!({"a": a.name(), "b": b.name(), "x": x, "lhs": lhs, "rhs": rhs}));
                }
            }
            Ok(())
        },
    );
    // ---- a custom easing is used as given (through a real timeline)
    let n: u64 = if quick { 20_000 } else { 2_000_000 };
    run.enumerate(
        "c13_custom",
        "a counting custom easing (piecewise linear, exactly computable) installed as default easing and as per-keyframe easing of a 3-keyframe timeline; oracle: the timeline output equals lerp(a,b,f(x)) computed with the same f bit-for-bit, f is only called with arguments in [0,1], and it IS called; every index a distinct time",
        n,
        1 << 10,
        true,
        |range, eo| {
            let calls = std::sync::Arc::new(AtomicU64::new(0));
            let bad = std::sync::Arc::new(AtomicU64::new(0));
            let ce = CountingEase { calls: calls.clone(), bad_arg: bad.clone() };
            let tl = P::timeline()
                .duration_seconds(4.0)
                .default_easing(Easing::Custom(Box::new(ce.clone())))
                .keyframe(P::keyframe(0.0).a(0.0).c(0))
                .keyframe(P::keyframe(0.5).a(100.0).c(1000).easing(Easing::Custom(Box::new(ce.clone()))))
                .keyframe(P::keyframe(1.0).a(-50.0).c(-500));
            let tl = TimelineBuilder::build(tl);
            for idx in range {
                let t = 4.0 * (idx as f32 / n as f32);
                let mut v = P::default();
                let before = calls.load(Ordering::Relaxed);
                tl.update(&mut v, t);
                let pos = t / 4.0;
                let (a, b, x) = if pos < 0.5 { (0.0f32, 100.0f32, (pos - 0.0) / 0.5) } else { (100.0, -50.0, (pos - 0.5) / (1.0 - 0.5)) };
                let want = a * (1.0 - ce.calc(x)) + b * ce.calc(x);
                if pos != 0.5 && pos != 1.0 && pos != 0.0 {
                    if (v.a - want).abs() > 1e-3 {
                        return Err((json!({"index": idx, "t": t}), format!("custom easing not used as given: at t={t} got a={} but lerp({a},{b},f({x})) = {want}", v.a)));
                    }
                    if calls.load(Ordering::Relaxed) == before {
                        return Err((json!({"index": idx, "t": t}), format!("custom easing was not called at t={t}")));
                    }
                    eo.nontrivial += 1;
                }
                if bad.load(Ordering::Relaxed) != 0 {
                    return Err((json!({"index": idx, "t": t}), format!("custom easing called with an argument outside [0,1] at t={t}")));
                }
                eo.evaluated += 1;
                if idx == n / 3 {
                    eo.sample(|| json!({"t": t, "a": v.a, "want": want}));
                }
            }
            Ok(())
        },
    );
    // ---- a custom easing is used as given, also when `Easing::calc` is called directly and at the two ends
    let grid_d: u64 = if quick { 1 << 16 } else { 1 << 22 };
    run.enumerate(
        "c13_custom_direct",
        "four custom functions that are NOT anchored at (0,0)/(1,1) (steps(4, jump-start), the constant 0.5, the flip 1-x, a shape dipping to -0.25 and overshooting 1) wrapped in Easing::Custom; oracle: Easing::Custom(f).calc(x) is bit-identical to f.calc(x) at every x = k/grid in [0,1] including exactly 0 and 1 and the 64 floats next to each end, also after cloning the Easing",
        4 * (grid_d + 1 + 128),
        1 << 12,
        true,
        move |range, eo| {
            let calls = std::sync::Arc::new(AtomicU64::new(0));
            let bad = std::sync::Arc::new(AtomicU64::new(0));
            let fs: [(&str, Box<dyn EasingFunction>); 4] = [
                ("steps(4, jump-start)", Box::new(ShapeEase(0))),
                ("constant 0.5", Box::new(ShapeEase(1))),
                ("1 - x", Box::new(ShapeEase(2))),
                ("dip and overshoot", Box::new(CountingEase { calls: calls.clone(), bad_arg: bad.clone() })),
            ];
            let wrapped: Vec<Easing> = fs.iter().map(|(_, f)| Easing::Custom(f.clone())).collect();
            let cloned: Vec<Easing> = wrapped.iter().map(|e| e.clone()).collect();
            let per = grid_d + 1 + 128;
            for idx in range {
                let (v, k) = ((idx / per) as usize, idx % per);
                let x = if k <= grid_d {
                    k as f32 / grid_d as f32
                } else if k <= grid_d + 64 {
                    f32::from_bits((k - grid_d) as u32) // the smallest positive floats
                } else {
                    f32::from_bits(1.0f32.to_bits() - (k - grid_d - 64) as u32) // just below 1
                };
                let want = fs[v].1.calc(x);
                for (route, e) in [("Easing::Custom(f)", &wrapped[v]), ("a clone of Easing::Custom(f)", &cloned[v])] {
                    let got = e.calc(x);
                    if got.to_bits() != want.to_bits() {
                        return Err((json!({"index": idx, "f": fs[v].0, "x": x}), format!("custom easing not used as given: {route}.calc({x}) = {got} but f.calc({x}) = {want} (f = {})", fs[v].0)));
                    }
                }
                // ... and a DIFFERENT custom easing asked at the same x right afterwards gets its own answer
                // (nothing may be remembered per "kind of easing")
                let o = (v + 1) % 4;
                let (got_o, want_o) = (wrapped[o].calc(x), fs[o].1.calc(x));
                if got_o.to_bits() != want_o.to_bits() {
                    return Err((json!({"index": idx, "f": fs[o].0, "after": fs[v].0, "x": x}), format!("custom easing not used as given: Easing::Custom(f).calc({x}) = {got_o} but f.calc({x}) = {want_o} (f = {}, asked right after the custom easing {})", fs[o].0, fs[v].0)));
                }
                eo.evaluated += 1;
                if want != x {
                    eo.nontrivial += 1;
                }
                if k == grid_d / 3 {
                    eo.sample(|| json!({"f": fs[v].0, "x": x, "value": want}));
                }
            }
            Ok(())
        },
    );
    // ---- the public Bezier constructor, given an easing's published control points, IS that easing
    let grid: u64 = if quick { 1 << 14 } else { 1 << 20 };
    run.enumerate(
        "c13_public_bezier_constructor",
        "for each of the 28 Bezier-defined built-ins: `Easing::Custom(CubicBezierEasing::new(published control points))` and the built-in of that name agree bit for bit at every x = k/grid (grid 2^14 quick, 2^20 thorough) - whatever evaluation rule the library uses, a curve built from the same four numbers through the public constructor is the same curve (this relation is independent of known finding D5); non-trivial = x not in {0,1}; every (easing, x) distinct",
        28 * (grid + 1),
        1 << 12,
        true,
        move |range, eo| {
            for idx in range {
                let (v, k) = ((idx / (grid + 1)) as usize, idx % (grid + 1));
                let (name, p) = mv_model::PUBLISHED[v];
                let Some(b) = BUILTINS.iter().find(|e| e.name() == name) else {
                    return Err((json!({"index": idx}), format!("no built-in named {name}")));
                };
                let x = k as f32 / grid as f32;
                let custom = Easing::Custom(Box::new(mina_core::easing::CubicBezierEasing::new(p[0] as f32, p[1] as f32, p[2] as f32, p[3] as f32)));
                let (lhs, rhs) = (b.to_mina().calc(x), custom.calc(x));
                if lhs.to_bits() != rhs.to_bits() {
                    return Err((json!({"index": idx, "easing": name, "x": x}), format!("Easing::{name}.calc({x}) = {lhs} but CubicBezierEasing::new({}, {}, {}, {}).calc({x}) = {rhs}", p[0], p[1], p[2], p[3])));
                }
                eo.evaluated += 1;
                if k != 0 && k != grid {
                    eo.nontrivial += 1;
                }
                if k == grid / 3 && v % 9 == 0 {
                    eo.sample(|| json!({"easing": name, "points": p, "x": x, "value": lhs}));
                }
            }
            Ok(())
        },
    );
}

//! Shared case descriptions, builders, strategies and the model-based judge used by the `core`
//! binary (C01-C14, C20) and by the Bevy checks.
pub mod anim;
pub mod desc;
pub mod gencheck;
pub mod oracle;

//! Shared case descriptions, builders, strategies and the model-based judge used by the `core`
//! binary (C01-C14, C20) and by the Bevy checks.
extern crate self as mv_core;

pub mod anim;
pub mod desc;
pub mod fuzzdrv;
pub mod gencheck;
pub mod oracle;
pub mod c_animator;
pub mod c_easing;
pub mod c_lerp;
pub mod c_robust;
pub mod c_timeline;
pub mod c_timescale;

//! Shared case descriptions, builders, strategies and the model-based judge used by the `core`
//! binary (C01-C14, C20) and by the Bevy checks.
pub mod desc;
pub mod oracle;

//! Abstract case descriptions (serialisable), builders that turn them into real mina objects via
//! the public API (derive(Animate) -> TimelineConfiguration -> build), and proptest strategies.

use mina::prelude::*;
use mina::EasingFunction;
use mv_engine::pick_idx;
use mv_model::{CustomEase, KfIn, Rep, Timing};
use proptest::prelude::*;
use serde::{Deserialize, Serialize};

/// The animated test struct: four animated properties of different types plus two fields that are
/// excluded from animation (no `#[animate]`).
#[derive(Animate, Clone, Debug, Default, PartialEq)]
pub struct P {
    #[animate]
    pub a: f32,
    #[animate]
    pub b: f32,
    #[animate]
    pub c: i32,
    #[animate]
    pub d: u8,
    pub s: f32,
    pub z: i32,
}

pub const NPROP: usize = 4;
pub const PROP_NAMES: [&str; NPROP] = ["a", "b", "c", "d"];
pub const PROP_IS_INT: [bool; NPROP] = [false, false, true, true];

impl P {
    pub fn get(&self, i: usize) -> f64 {
        match i {
            0 => self.a as f64,
            1 => self.b as f64,
            2 => self.c as f64,
            _ => self.d as f64,
        }
    }
    /// bit pattern of every field (NaN-payload safe comparison)
    pub fn bits(&self) -> [u64; 6] {
        [self.a.to_bits() as u64, self.b.to_bits() as u64, self.c as u32 as u64, self.d as u64, self.s.to_bits() as u64, self.z as u32 as u64]
    }
    pub fn from_vals(v: &Vals) -> P {
        P { a: v.a, b: v.b, c: v.c, d: v.d, s: 0.0, z: 0 }
    }
}

/// Values of the four animated properties.
#[derive(Clone, Copy, Debug, PartialEq, Serialize, Deserialize)]
pub struct Vals {
    pub a: f32,
    pub b: f32,
    pub c: i32,
    pub d: u8,
}

impl Vals {
    pub fn get(&self, i: usize) -> f64 {
        match i {
            0 => self.a as f64,
            1 => self.b as f64,
            2 => self.c as f64,
            _ => self.d as f64,
        }
    }
}

#[derive(Clone, Copy, Debug, PartialEq, Eq, Hash, Serialize, Deserialize)]
pub enum Ez {
    Linear,
    Ease,
    In,
    Out,
    InOut,
    InSine,
    OutSine,
    InOutSine,
    InQuad,
    OutQuad,
    InOutQuad,
    InCubic,
    OutCubic,
    InOutCubic,
    InQuart,
    OutQuart,
    InOutQuart,
    InQuint,
    OutQuint,
    InOutQuint,
    InExpo,
    OutExpo,
    InOutExpo,
    InCirc,
    OutCirc,
    InOutCirc,
    InBack,
    OutBack,
    InOutBack,
    Custom(CustomEase),
}

pub const BUILTINS: [Ez; 29] = [
    Ez::Linear, Ez::Ease, Ez::In, Ez::Out, Ez::InOut, Ez::InSine, Ez::OutSine, Ez::InOutSine, Ez::InQuad, Ez::OutQuad,
    Ez::InOutQuad, Ez::InCubic, Ez::OutCubic, Ez::InOutCubic, Ez::InQuart, Ez::OutQuart, Ez::InOutQuart, Ez::InQuint,
    Ez::OutQuint, Ez::InOutQuint, Ez::InExpo, Ez::OutExpo, Ez::InOutExpo, Ez::InCirc, Ez::OutCirc, Ez::InOutCirc,
    Ez::InBack, Ez::OutBack, Ez::InOutBack,
];

#[derive(Clone, Debug)]
pub struct CustomFn(pub CustomEase);
impl EasingFunction for CustomFn {
    fn calc(&self, x: f32) -> f32 {
        self.0.f32(x)
    }
}

impl Ez {
    pub fn name(&self) -> String {
        format!("{:?}", self)
    }
    pub fn is_back(&self) -> bool {
        matches!(self, Ez::InBack | Ez::OutBack | Ez::InOutBack)
    }
    pub fn to_mina(&self) -> Easing {
        match self {
            Ez::Linear => Easing::Linear,
            Ez::Ease => Easing::Ease,
            Ez::In => Easing::In,
            Ez::Out => Easing::Out,
            Ez::InOut => Easing::InOut,
            Ez::InSine => Easing::InSine,
            Ez::OutSine => Easing::OutSine,
            Ez::InOutSine => Easing::InOutSine,
            Ez::InQuad => Easing::InQuad,
            Ez::OutQuad => Easing::OutQuad,
            Ez::InOutQuad => Easing::InOutQuad,
            Ez::InCubic => Easing::InCubic,
            Ez::OutCubic => Easing::OutCubic,
            Ez::InOutCubic => Easing::InOutCubic,
            Ez::InQuart => Easing::InQuart,
            Ez::OutQuart => Easing::OutQuart,
            Ez::InOutQuart => Easing::InOutQuart,
            Ez::InQuint => Easing::InQuint,
            Ez::OutQuint => Easing::OutQuint,
            Ez::InOutQuint => Easing::InOutQuint,
            Ez::InExpo => Easing::InExpo,
            Ez::OutExpo => Easing::OutExpo,
            Ez::InOutExpo => Easing::InOutExpo,
            Ez::InCirc => Easing::InCirc,
            Ez::OutCirc => Easing::OutCirc,
            Ez::InOutCirc => Easing::InOutCirc,
            Ez::InBack => Easing::InBack,
            Ez::OutBack => Easing::OutBack,
            Ez::InOutBack => Easing::InOutBack,
            Ez::Custom(c) => Easing::Custom(Box::new(CustomFn(*c))),
        }
    }
    /// Model-side evaluation: customs in closed form (f64); built-ins by calling the real curve as a
    /// black box (C01 is about *which* easing applies, C13 about the curves themselves).
    pub fn model(&self, x: f64) -> f64 {
        match self {
            Ez::Custom(c) => c.f64(x),
            Ez::Linear => x,
            e => e.to_mina().calc(x as f32) as f64,
        }
    }
}

#[derive(Clone, Debug, PartialEq, Serialize, Deserialize)]
pub struct KfDesc {
    pub pos: f32,
    pub a: Option<f32>,
    pub b: Option<f32>,
    pub c: Option<i32>,
    pub d: Option<u8>,
    pub ez: Option<Ez>,
}

impl KfDesc {
    pub fn get(&self, i: usize) -> Option<f64> {
        match i {
            0 => self.a.map(|v| v as f64),
            1 => self.b.map(|v| v as f64),
            2 => self.c.map(|v| v as f64),
            _ => self.d.map(|v| v as f64),
        }
    }
    pub fn defines_any(&self) -> bool {
        self.a.is_some() || self.b.is_some() || self.c.is_some() || self.d.is_some()
    }
}

#[derive(Clone, Debug, PartialEq, Serialize, Deserialize)]
pub struct TlDesc {
    pub timing: Timing,
    pub default_ez: Ez,
    pub kfs: Vec<KfDesc>,
    /// order of the builder's setter calls (must not matter): 0 = timing, then keyframes;
    /// 1 = keyframes, then timing; 2 = half of the keyframes, timing, the rest;
    /// 3 = a different provisional duration first, keyframes, then the real timing
    #[serde(default)]
    pub order: u8,
}

pub fn to_repeat(r: Rep) -> Repeat {
    match r {
        Rep::None => Repeat::None,
        Rep::Times(n) => Repeat::Times(n),
        Rep::Infinite => Repeat::Infinite,
    }
}
pub fn from_repeat(r: Repeat) -> Rep {
    match r {
        Repeat::None => Rep::None,
        Repeat::Times(n) => Rep::Times(n),
        Repeat::Infinite => Rep::Infinite,
    }
}

impl TlDesc {
    pub fn build_kf(k: &KfDesc) -> PKeyframeBuilder {
        let mut kb = P::keyframe(k.pos);
        if let Some(v) = k.a {
            kb = kb.a(v);
        }
        if let Some(v) = k.b {
            kb = kb.b(v);
        }
        if let Some(v) = k.c {
            kb = kb.c(v);
        }
        if let Some(v) = k.d {
            kb = kb.d(v);
        }
        if let Some(e) = k.ez {
            kb = kb.easing(e.to_mina());
        }
        kb
    }

    /// Builds the real timeline through the public builder path, keyframes in the listed order.
    pub fn build(&self) -> PTimeline {
        // orders 4..7: as 0..3, but a setter is not called at all when its value is the documented
        // default (1 s, no delay, no repeat, no reverse, linear)
        let omit = (self.order / 4) % 2 == 1 && self.order % 4 != 3;
        let timing = |mut b: mina::TimelineConfiguration<PKeyframeData>| {
            if !(omit && self.timing.cycle == 1.0) {
                b = b.duration_seconds(self.timing.cycle);
            }
            if !(omit && self.timing.delay == 0.0) {
                b = b.delay_seconds(self.timing.delay);
            }
            if !(omit && self.timing.repeat == Rep::None) {
                b = b.repeat(to_repeat(self.timing.repeat));
            }
            if !(omit && !self.timing.reverse) {
                b = b.reverse(self.timing.reverse);
            }
            if !(omit && self.default_ez == Ez::Linear) {
                b = b.default_easing(self.default_ez.to_mina());
            }
            b
        };
        let mut b = P::timeline();
        let n = self.kfs.len();
        let split = match self.order % 4 {
            0 => 0,
            1 | 3 => n,
            _ => n / 2,
        };
        if self.order % 4 == 0 {
            b = timing(b);
        }
        if self.order % 4 == 3 {
            b = b.duration_seconds(self.timing.cycle * 3.0 + 1.0).delay_seconds(5.0).reverse(!self.timing.reverse).repeat(mina::Repeat::Times(5)).default_easing(mina::Easing::OutCirc);
        }
        for k in &self.kfs[..split] {
            b = b.keyframe(Self::build_kf(k));
        }
        if self.order % 4 != 0 {
            b = timing(b);
        }
        for k in &self.kfs[split..] {
            b = b.keyframe(Self::build_kf(k));
        }
        TimelineBuilder::build(b)
    }

    pub fn uses_back(&self) -> bool {
        self.default_ez.is_back() || self.kfs.iter().any(|k| k.ez.map(|e| e.is_back()).unwrap_or(false))
    }

    /// model input for property `i`
    pub fn kf_in(&self, i: usize) -> Vec<KfIn<Ez>> {
        self.kfs.iter().map(|k| KfIn { pos: k.pos as f64, value: k.get(i), easing: k.ez }).collect()
    }

    pub fn frames(&self, i: usize) -> Vec<mv_model::Frame<Ez>> {
        mv_model::frames(&self.kf_in(i), 0.0, self.default_ez)
    }

    /// `Lerp` documents a panic when an integer result leaves its type. With Back easings (overshoot)
    /// keep the u8 property away from the type's limits so that this documented panic is not provoked.
    pub fn sanitize(mut self) -> Self {
        if self.uses_back() {
            // without a keyframe at 0 % the first segment starts from the type default 0, and an
            // undershoot below 0 is exactly the documented panic: leave `d` un-animated then.
            let has_zero = self.kfs.iter().any(|k| k.pos == 0.0 && k.d.is_some());
            for k in &mut self.kfs {
                if let Some(d) = k.d {
                    k.d = if has_zero { Some(64 + d / 2) } else { None };
                }
            }
        }
        self
    }

    /// Drops keyframes whose position repeats an earlier one (for properties quantified over
    /// distinct positions only).
    pub fn distinct_positions(mut self) -> Self {
        let mut seen: Vec<u32> = vec![];
        self.kfs.retain(|k| {
            let b = if k.pos == 0.0 { 0 } else { k.pos.to_bits() };
            if seen.contains(&b) {
                false
            } else {
                seen.push(b);
                true
            }
        });
        self.sanitize()
    }
}

pub fn sanitize_vals(mut v: Vals, back: bool) -> Vals {
    if back {
        v.d = 64 + v.d / 2;
    }
    v
}

// ---------------------------------------------------------------------------------------------
// Strategies

pub fn ez_strategy() -> impl Strategy<Value = Ez> {
    prop_oneof![
        4 => Just(Ez::Linear),
        6 => prop::sample::select(vec![Ez::InQuad, Ez::OutCubic, Ez::InOutSine, Ez::Ease, Ez::OutExpo, Ez::InCirc]),
        2 => prop::sample::select(BUILTINS.to_vec()),
        1 => prop::sample::select(vec![Ez::InBack, Ez::OutBack, Ez::InOutBack]),
        5 => prop::sample::select(CustomEase::ALL.to_vec()).prop_map(Ez::Custom),
    ]
}

/// built-in easings only, no Back (C04 quantifies over built-in easings)
pub fn ez_builtin_strategy() -> impl Strategy<Value = Ez> {
    prop_oneof![
        4 => Just(Ez::Linear),
        6 => prop::sample::select(vec![Ez::InQuad, Ez::OutCubic, Ez::InOutSine, Ez::Ease, Ez::OutExpo, Ez::InCirc]),
        2 => prop::sample::select(BUILTINS[..26].to_vec()),
    ]
}

pub fn dyadic(max_m: u32, max_j: u32) -> impl Strategy<Value = f32> {
    (1..=max_m, 0..=max_j).prop_map(|(m, j)| m as f32 / (1u32 << j) as f32)
}

pub fn log_uniform(lo_exp: f64, hi_exp: f64) -> impl Strategy<Value = f32> {
    (lo_exp..hi_exp).prop_map(|e| 10f64.powf(e) as f32)
}

pub fn cycle_strategy() -> impl Strategy<Value = f32> {
    prop_oneof![
        2 => prop::sample::select(vec![1.0f32, 2.0, 0.5, 4.0, 1.0, 1.0]),
        4 => dyadic(64, 4),
        3 => prop::sample::select(vec![0.1f32, 0.25, 0.3, 0.5, 1.0, 1.5, 2.0, 5.0, 20.0]),
        2 => log_uniform(-3.0, 6.0),
    ]
}

pub fn delay_strategy() -> impl Strategy<Value = f32> {
    prop_oneof![
        8 => Just(0.0f32),
        4 => dyadic(64, 4),
        3 => prop::sample::select(vec![0.1f32, 0.25, 0.3, 1.0, 2.0, 5.0]),
        2 => (1..=16u32).prop_map(|m| -(m as f32) / 8.0),
        2 => log_uniform(-3.0, 4.0),
    ]
}

pub fn repeat_strategy() -> impl Strategy<Value = Rep> {
    prop_oneof![
        6 => Just(Rep::None),
        6 => prop::sample::select(vec![0u32, 1, 2, 3, 7]).prop_map(Rep::Times),
        1 => prop::sample::select(vec![(1u32 << 24) - 1, 1 << 24, (1 << 24) + 1, u32::MAX - 1, u32::MAX]).prop_map(Rep::Times),
        3 => Just(Rep::Infinite),
    ]
}

pub fn timing_strategy() -> impl Strategy<Value = Timing> {
    (cycle_strategy(), delay_strategy(), repeat_strategy(), any::<bool>()).prop_map(|(cycle, delay, repeat, reverse)| Timing { cycle, delay, repeat, reverse })
}

pub fn pos_strategy() -> impl Strategy<Value = f32> {
    prop_oneof![
        4 => (0..=8u32).prop_map(|k| k as f32 / 8.0),
        2 => (0..=64u32).prop_map(|k| k as f32 / 64.0),
        3 => (0..=100u32).prop_map(|k| k as f32 * 0.01),
        2 => prop::sample::select(vec![0.0f32, 1.0]),
        3 => (0.0f32..=1.0f32),
    ]
}

pub fn f32_val_strategy() -> impl Strategy<Value = f32> {
    prop_oneof![
        4 => (-100i32..=100).prop_map(|v| v as f32),
        3 => (-1.0e4f32..1.0e4f32),
        2 => prop::sample::select(vec![0.0f32, 1.0, -1.0, 100.0, 255.0, 0.5, -0.25]),
    ]
}

pub fn i32_val_strategy() -> impl Strategy<Value = i32> {
    prop_oneof![
        5 => -100i32..=100,
        3 => -(1i32 << 24)..=(1i32 << 24),
        1 => prop::sample::select(vec![0i32, 1 << 24, -(1 << 24), 1000, -1000]),
    ]
}

pub fn vals_strategy() -> impl Strategy<Value = Vals> {
    (f32_val_strategy(), f32_val_strategy(), i32_val_strategy(), any::<u8>()).prop_map(|(a, b, c, d)| Vals { a, b, c, d })
}

fn opt<T: std::fmt::Debug + Clone>(s: impl Strategy<Value = T>, some_w: u32, none_w: u32) -> impl Strategy<Value = Option<T>> {
    prop_oneof![
        none_w => Just(()).prop_map(|_| None),
        some_w => s.prop_map(Some),
    ]
}

pub fn kf_strategy(ez: impl Strategy<Value = Ez>) -> impl Strategy<Value = KfDesc> {
    (pos_strategy(), opt(f32_val_strategy(), 3, 2), opt(f32_val_strategy(), 2, 3), opt(i32_val_strategy(), 3, 2), opt(any::<u8>(), 3, 2), opt(ez, 2, 3))
        .prop_map(|(pos, a, b, c, d, ez)| KfDesc { pos, a, b, c, d, ez })
}

pub fn tl_strategy_with(timing: impl Strategy<Value = Timing>, max_kfs: usize) -> impl Strategy<Value = TlDesc> {
    // shape of the keyframe list: usually 0..=max, sometimes one keyframe is moved to within a few
    // ulps of another (near-coincident but distinct positions), rarely a large list (> 32 keyframes
    // on a coarse grid, i.e. with many repeated positions)
    let small = prop::collection::vec(kf_strategy(ez_strategy()), 0..=max_kfs);
    let near = (prop::collection::vec(kf_strategy(ez_strategy()), 2..=max_kfs.max(2)), any::<u16>(), any::<u16>(), 1i32..=4, any::<bool>()).prop_map(|(mut kfs, i, j, n, up)| {
        let (i, j) = (mv_engine::pick_idx(i, kfs.len()), mv_engine::pick_idx(j, kfs.len()));
        if i != j {
            let p = mv_model::step32(kfs[i].pos, if up { n } else { -n });
            if (0.0..=1.0).contains(&p) {
                kfs[j].pos = p;
            }
        }
        kfs
    });
    let (lo, hi) = if max_kfs >= 8 { (33usize, 70usize) } else { (0, max_kfs) };
    let large = prop::collection::vec(kf_strategy(ez_strategy()), lo..=hi).prop_map(|mut kfs| {
        for (n, k) in kfs.iter_mut().enumerate() {
            // coarse grid: plenty of repeated positions
            k.pos = ((k.pos * 16.0).round() / 16.0).clamp(0.0, 1.0);
            let _ = n;
        }
        kfs
    });
    let kfs = prop_oneof![16 => small, 3 => near, 1 => large];
    (timing, ez_strategy(), kfs, 0u8..8).prop_map(|(timing, default_ez, kfs, order)| TlDesc { timing, default_ez, kfs, order }.sanitize())
}

pub fn tl_strategy() -> impl Strategy<Value = TlDesc> {
    tl_strategy_with(timing_strategy(), 8)
}

/// Timelines for animator checks: built-in easings without Back, distinct positions.
pub fn tl_strategy_animator(timing: impl Strategy<Value = Timing>) -> impl Strategy<Value = TlDesc> {
    (timing, ez_builtin_strategy(), prop::collection::vec(kf_strategy(ez_builtin_strategy()), 0..=5), 0u8..8)
        .prop_map(|(timing, default_ez, kfs, order)| TlDesc { timing, default_ez, kfs, order }.distinct_positions())
}

// ---------------------------------------------------------------------------------------------
// Time specifications, resolved against a timing configuration when the case is interpreted so that
// exact keyframe hits, exact cycle multiples and the floats either side of every phase boundary are
// produced deliberately (and still shrink).

#[derive(Clone, Copy, Debug, PartialEq, Serialize, Deserialize)]
pub enum TimeSpec {
    /// absolute time
    Abs(f32),
    /// delay + cycle * (k + num / 2^den)
    Frac { k: u32, num: u32, den: u8 },
    /// a phase boundary, displaced by `ulps` floats: which = 0 delay, 1 end of cycle k, 2 middle of
    /// cycle k, 3 total end
    Boundary { which: u8, k: u32, ulps: i8 },
    /// keyframe `sel` (selector into the keyframe list) in cycle k (on the reverse pass if `rev`),
    /// displaced by `ulps` floats
    Kf { k: u32, sel: u16, rev: bool, ulps: i8 },
    /// far beyond: 0 => 1e9, 1 => 2^24 cycles, 2 => f32::MAX/4, 3 => total + 1000, 4 => total*1.5
    Far(u8),
}

impl TimeSpec {
    pub fn resolve(&self, tl: &TlDesc) -> f32 {
        let t = &tl.timing;
        let c = t.cycle as f64;
        let d = t.delay as f64;
        let total = t.total();
        let cycles = t.repeat.cycles();
        let clampk = |k: u32| -> f64 {
            match cycles {
                Some(n) => (k as u64).min(n.saturating_sub(1)) as f64,
                None => k as f64,
            }
        };
        let v: f64 = match *self {
            TimeSpec::Abs(x) => return x,
            TimeSpec::Frac { k, num, den } => {
                let den = den.min(10);
                let f = (num % (1u32 << den)) as f64 / (1u32 << den) as f64;
                d + c * (clampk(k) + f)
            }
            TimeSpec::Boundary { which, k, ulps } => {
                let base = match which % 4 {
                    0 => d,
                    1 => d + c * (clampk(k) + 1.0),
                    2 => d + c * (clampk(k) + 0.5),
                    _ => if total.is_finite() { total } else { d + c * (k as f64 + 1.0) },
                };
                return mv_model::step32(base as f32, ulps as i32);
            }
            TimeSpec::Kf { k, sel, rev, ulps } => {
                let p = if tl.kfs.is_empty() { 0.5 } else { tl.kfs[pick_idx(sel, tl.kfs.len())].pos as f64 };
                let within = if t.reverse {
                    if rev { 1.0 - p / 2.0 } else { p / 2.0 }
                } else {
                    p
                };
                return mv_model::step32((d + c * (clampk(k) + within)) as f32, ulps as i32);
            }
            TimeSpec::Far(w) => match w % 5 {
                0 => 1e9,
                1 => d + c * 16_777_216.0,
                2 => (f32::MAX / 4.0) as f64,
                3 => if total.is_finite() { total + 1000.0 } else { 1e7 },
                _ => if total.is_finite() { total * 1.5 + 1.0 } else { 3e8 },
            },
        };
        let f = v as f32;
        if f.is_finite() { f } else { f32::MAX / 4.0 }
    }
}

pub fn timespec_strategy() -> impl Strategy<Value = TimeSpec> {
    let k = || prop_oneof![4 => 0u32..=3, 1 => prop::sample::select(vec![7u32, 100, 1 << 20])];
    prop_oneof![
        3 => prop_oneof![(0.0f32..50.0), (-2.0f32..2.0), log_uniform(-4.0, 7.0)].prop_map(TimeSpec::Abs),
        6 => (k(), any::<u32>(), 1u8..=10).prop_map(|(k, num, den)| TimeSpec::Frac { k, num, den }),
        2 => (0u8..4, k(), -2i8..=2).prop_map(|(which, k, ulps)| TimeSpec::Boundary { which, k, ulps }),
        3 => (k(), any::<u16>(), any::<bool>(), -1i8..=1).prop_map(|(k, sel, rev, ulps)| TimeSpec::Kf { k, sel, rev, ulps }),
        1 => (0u8..5).prop_map(TimeSpec::Far),
    ]
}

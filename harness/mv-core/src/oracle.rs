//! Judging real timeline output against the f64 reference model with a per-case error budget
//! (DESIGN 2.5). Nothing here looks at mina internals.

use crate::desc::*;
use mv_model::{eval, frame_value, ulp32, Frame, Locate, Phase};

pub struct ModelTl {
    pub timing: mv_model::Timing,
    /// per property: the frame list (empty = not animated)
    pub frames: Vec<Vec<Frame<Ez>>>,
    pub is_int: Vec<bool>,
    pub names: Vec<String>,
    pub uses_back: bool,
}

#[derive(Clone, Debug, Default)]
pub struct Judged {
    /// decided against a single segment / exact point with the derived tolerance
    pub strict: bool,
    /// decided by the range rule next to a discontinuity or across several frames
    pub near: bool,
    /// central model evaluation is strictly inside a segment with different end values, Active phase
    pub nontrivial: bool,
    pub seg: usize,
    pub nsegs: usize,
    pub synthetic0: bool,
    pub synthetic1: bool,
    pub easing_src: u8,
    pub override_active: bool,
    pub reversing: bool,
    pub cycle: u64,
    pub phase_kind: u8,
    pub hit: bool,
    /// why the range rule was used: 1 phase boundary inside the window, 2 time known too coarsely,
    /// 3 window spans several frame positions
    pub near_reason: u8,
}

fn ease(e: &Ez, x: f64) -> f64 {
    e.model(x)
}

impl ModelTl {
    pub fn new(desc: &TlDesc) -> Self {
        let frames = vec![desc.frames(0), desc.frames(1), desc.frames(2), desc.frames(3)];
        ModelTl {
            uses_back: desc.uses_back(),
            timing: desc.timing,
            frames,
            is_int: PROP_IS_INT.to_vec(),
            names: PROP_NAMES.iter().map(|s| s.to_string()).collect(),
        }
    }

    /// Model of a timeline over an arbitrary list of properties (used for generated struct shapes):
    /// `kfs[k] = (position, per-property value or None, easing)`, in insertion order.
    pub fn dynamic(timing: mv_model::Timing, default_ez: Ez, kfs: &[(f32, Vec<Option<f64>>, Option<Ez>)], is_int: Vec<bool>, names: Vec<String>) -> Self {
        let n = is_int.len();
        let frames = (0..n)
            .map(|i| {
                let ins: Vec<mv_model::KfIn<Ez>> = kfs.iter().map(|(p, v, e)| mv_model::KfIn { pos: *p as f64, value: v[i], easing: *e }).collect();
                mv_model::frames(&ins, 0.0, default_ez)
            })
            .collect();
        let uses_back = default_ez.is_back() || kfs.iter().any(|(_, _, e)| e.map(|e| e.is_back()).unwrap_or(false));
        ModelTl { timing, frames, is_int, names, uses_back }
    }

    pub fn animates(&self, i: usize) -> bool {
        !self.frames[i].is_empty()
    }

    /// Exact model value of property `i` at exact time `t` (f64), no tolerance; None = untouched.
    pub fn value_at(&self, i: usize, t: f64, start: Option<f64>) -> Option<(f64, Phase)> {
        let ph = self.timing.phase(t);
        eval(&self.frames[i], ph.pos(), start, ph.first_forward_pass(), &ease).map(|e| (e.value, ph))
    }

    /// Terminal value of property i (at/after the total duration): 100 % value, or the original 0 %
    /// value for reversing timelines.
    pub fn terminal(&self, i: usize) -> Option<f64> {
        let fr = &self.frames[i];
        if fr.is_empty() {
            return None;
        }
        Some(if self.timing.reverse { fr[0].value } else { fr[fr.len() - 1].value })
    }

    /// Judges property `i` of the implementation's output `got` at time `t`.
    /// `start`: substituted start value of that property, if start_with was called.
    pub fn judge(&self, i: usize, t: f32, start: Option<f64>, got: f64) -> Result<Judged, String> {
        self.judge_window(i, t as f64, 0.0, start, got)
    }

    /// Same, for a real-valued time `t` known to within `extra` seconds (plus the f32 rounding of
    /// `t - delay`, which is always added).
    pub fn judge_window(&self, i: usize, t: f64, extra: f64, start: Option<f64>, got: f64) -> Result<Judged, String> {
        let fr = &self.frames[i];
        let tm = &self.timing;
        let mut j = Judged::default();
        if fr.is_empty() {
            return Ok(j);
        }
        let is_int = self.is_int[i];
        let s = t - tm.delay as f64;
        // Rounding of `t - delay`: none when the difference of the two f32 inputs is itself exactly
        // representable (delay 0, dyadic grids, ...) - an f32 subtraction is then exact, and so is
        // the remainder modulo the cycle; only the final division rounds. Otherwise one ulp.
        // Next to the end of the active span the rounded product cycle x (repeats+1) matters too.
        let exact_sub = extra == 0.0 && (t as f32) as f64 == t && {
            let r = t - tm.delay as f64;
            r - t == -(tm.delay as f64) && (r as f32) as f64 == r
        };
        let span = tm.active_span();
        let near_end = span.is_finite() && (s - span).abs() <= 4.0 * ulp32(span as f32) as f64;
        let ds = if exact_sub && !near_end { 0.0 } else { ulp32(s as f32) as f64 + extra + if near_end { ulp32(span as f32) as f64 } else { 0.0 } };
        let pts = [s - ds, s, s + ds];
        let ph: Vec<Phase> = pts.iter().map(|&x| tm.phase_s(x)).collect();
        // "Piece" = maximal stretch of time over which the value is a continuous function of time
        // with one setting of the first-pass flag. Non-reversing: one piece per cycle (NotStarted
        // joins cycle 0, Ended joins the last cycle). Reversing: the position is continuous
        // everywhere, only the first-pass flag splits it in two.
        let last_cycle = tm.repeat.cycles().map(|n| n - 1).unwrap_or(u64::MAX);
        let ident = |p: &Phase| -> u64 {
            match p {
                Phase::NotStarted => 0,
                Phase::Active { cycle, reversing, .. } => {
                    if tm.reverse {
                        if *cycle == 0 && !*reversing { 0 } else { 1 }
                    } else {
                        *cycle
                    }
                }
                Phase::Ended { .. } => {
                    if tm.reverse { 1 } else { last_cycle }
                }
            }
        };
        let central = eval(fr, ph[1].pos(), start, ph[1].first_forward_pass(), &ease).unwrap();
        j.seg = central.seg;
        j.nsegs = fr.len() - 1;
        j.hit = central.hit;
        j.phase_kind = ph[1].kind();
        if let Phase::Active { cycle, reversing, .. } = ph[1] {
            j.cycle = cycle;
            j.reversing = reversing;
        }
        j.override_active = start.is_some() && ph[1].first_forward_pass() && central.seg == 0;
        if !central.hit {
            j.synthetic0 = central.seg == 0 && fr[0].synthetic;
            j.synthetic1 = central.seg + 2 == fr.len() && fr[fr.len() - 1].synthetic;
            j.easing_src = fr[central.seg].easing_src;
        }
        let all_vals = || {
            let mut lo = f64::INFINITY;
            let mut hi = f64::NEG_INFINITY;
            for f in fr.iter() {
                lo = lo.min(f.value);
                hi = hi.max(f.value);
            }
            if let Some(v) = start {
                lo = lo.min(v);
                hi = hi.max(v);
            }
            (lo, hi)
        };
        let int_slack = if is_int { 0.5 } else { 0.0 };
        // when the time is known so coarsely that the position is essentially undetermined, only the
        // range rule is meaningful
        let coarse = ds / (tm.cycle as f64) > 1e-3;
        let same_piece = !coarse && ident(&ph[0]) == ident(&ph[1]) && ident(&ph[1]) == ident(&ph[2]);
        if !same_piece {
            // next to a phase discontinuity: either one-sided limit is acceptable -> range rule
            j.near = true;
            j.near_reason = if coarse { 2 } else { 1 };
            if self.uses_back {
                return Ok(j);
            }
            let (lo, hi) = all_vals();
            let tol = 8.0 * ulp32(lo.abs().max(hi.abs()) as f32) as f64 + int_slack + (hi - lo) * 1e-6;
            if got < lo - tol || got > hi + tol {
                return Err(format!("prop {} t={t:?}: got {got} outside the value range [{lo},{hi}] (near a phase boundary)", self.names[i]));
            }
            return Ok(j);
        }
        let first_pass = ph[1].first_forward_pass();
        let mut pmin = ph.iter().map(|p| p.pos()).fold(f64::INFINITY, f64::min);
        let mut pmax = ph.iter().map(|p| p.pos()).fold(f64::NEG_INFINITY, f64::max);
        if tm.reverse {
            // a turning point inside the window: include the extremum itself
            let rev = |p: &Phase| matches!(p, Phase::Active { reversing: true, .. });
            let cyc = |p: &Phase| match p {
                Phase::Active { cycle, .. } => *cycle as i128,
                Phase::NotStarted => -1,
                Phase::Ended { .. } => i128::MAX,
            };
            if rev(&ph[0]) != rev(&ph[2]) || rev(&ph[0]) != rev(&ph[1]) {
                pmax = 1.0;
            }
            if cyc(&ph[0]) != cyc(&ph[2]) || cyc(&ph[0]) != cyc(&ph[1]) {
                pmin = 0.0;
                if rev(&ph[0]) == rev(&ph[2]) {
                    // skipped a whole half cycle: cannot happen for a non-coarse window, be safe
                    pmax = 1.0;
                }
            }
        }
        // rounding of the position itself (remainder / cycle, folded when reversing): none when the
        // subtraction is exact and the cycle is a power of two (the division is then exact too)
        let c_pow2 = {
            let c = tm.cycle as f64;
            c > 0.0 && c.log2().fract() == 0.0
        };
        let pos_margin = if ds == 0.0 && c_pow2 && !tm.reverse {
            0.0
        } else if ds == 0.0 {
            2f64.powi(-23)
        } else {
            2f64.powi(-22)
        };
        // (an f32 quotient is never finer than the smallest denormal step)
        let pos_margin = pos_margin + 1.5e-45;
        let pl = (pmin - pos_margin).max(0.0);
        let phh = (pmax + pos_margin).min(1.0);
        let ll = mv_model::locate(fr, pl);
        let lh = mv_model::locate(fr, phh);
        match (&ll, &lh) {
            (Locate::Inside { i: i0 }, Locate::Inside { i: i1 }) if i0 == i1 => {
                // strictly inside one segment: the tolerance domain proper
                let seg = *i0;
                let a = frame_value(fr, seg, start, first_pass);
                let b = fr[seg + 1].value;
                let w = fr[seg + 1].pos - fr[seg].pos;
                let x = ((ph[1].pos() - fr[seg].pos) / w).clamp(0.0, 1.0);
                let xl = ((pl - fr[seg].pos) / w - 2f64.powi(-21)).clamp(0.0, 1.0);
                let xh = ((phh - fr[seg].pos) / w + 2f64.powi(-21)).clamp(0.0, 1.0);
                let e = &fr[seg].easing;
                let y = ease(e, x);
                let yl = ease(e, xl);
                let yh = ease(e, xh);
                let dy = (yl - y).abs().max((yh - y).abs()) + 2f64.powi(-20) * (1.0 + y.abs());
                let v = a * (1.0 - y) + b * y;
                let tol = (b - a).abs() * dy + 8.0 * ulp32(a.abs().max(b.abs()).max(v.abs()) as f32) as f64 + int_slack;
                j.strict = true;
                j.nontrivial = a != b && ph[1].kind() == 1 && !central.hit;
                if (got - v).abs() > tol {
                    return Err(format!(
                        "prop {} t={t:?}: got {got}, model {v} (segment {seg}: {a} -> {b}, x={x:.7}, easing {:?}, y={y:.7}, tol {tol:.3e}, phase {:?}, first_pass {first_pass})",
                        self.names[i], e, ph[1]
                    ));
                }
                Ok(j)
            }
            _ => {
                // window touches one or more frame positions: hull of the values in the window
                j.near = true;
                j.near_reason = 3;
                if self.uses_back {
                    return Ok(j);
                }
                let mut lo = f64::INFINITY;
                let mut hi = f64::NEG_INFINITY;
                let mut add = |v: f64| {
                    lo = lo.min(v);
                    hi = hi.max(v);
                };
                for p in [pl, ph[1].pos(), phh] {
                    let e = eval(fr, p, start, first_pass, &ease).unwrap();
                    add(e.value);
                }
                for (k, f) in fr.iter().enumerate() {
                    if f.pos >= pl && f.pos <= phh {
                        add(frame_value(fr, k, start, first_pass));
                        // with repeated positions the neighbours' segment ends are included too - but
                        // while a substituted start value is in force the configured value of a lone
                        // first frame is never shown (C10), so it does not widen the hull
                        let overridden = k == 0 && start.is_some() && first_pass && fr.iter().filter(|g| g.pos == f.pos).count() == 1;
                        if !overridden {
                            add(f.value);
                        }
                    }
                }
                // the easing output itself is an f32 (quantised to ~2^-24 near 1): its rounding times
                // the largest value step of the property is part of the budget here too
                let (al, ah) = all_vals();
                let tol = 8.0 * ulp32(lo.abs().max(hi.abs()) as f32) as f64 + int_slack + (hi - lo).abs() * 1e-5 + (ah - al) * 2f64.powi(-20);
                // a window that is wider than a segment can hide a steep easing between its sample
                // points; degrade to the full range rule when the window spans more than two frames.
                let frames_in = fr.iter().filter(|f| f.pos >= pl && f.pos <= phh).count();
                let distinct_in = {
                    let mut ps: Vec<u64> = fr.iter().filter(|f| f.pos >= pl && f.pos <= phh).map(|f| f.pos.to_bits()).collect();
                    ps.dedup();
                    ps.len()
                };
                let (lo, hi, tol) = if distinct_in > 1 || (phh - pl) > 1e-3 {
                    let (l, h) = all_vals();
                    (l, h, tol + (h - l) * 1e-6)
                } else {
                    // tight hull around a single frame position: as sharp as the strict rule
                    j.near = false;
                    j.strict = true;
                    (lo, hi, tol)
                };
                let _ = frames_in;
                // exact hit with a single frame at that position and a tiny window: still sharp
                if got < lo - tol || got > hi + tol {
                    return Err(format!(
                        "prop {} t={t:?}: got {got} outside [{lo},{hi}] (+-{tol:.3e}) around frame position(s) in window [{pl},{phh}], phase {:?}",
                        self.names[i], ph[1]
                    ));
                }
                Ok(j)
            }
        }
    }
}

/// Sentinel target: distinctive values in every field, NaN payloads in the floats, so that any write
/// (even of "the same number") is visible in the bit pattern.
pub fn sentinel(k: u32) -> P {
    P {
        a: f32::from_bits(0x7fc0_1000 | (k & 0xfff)),
        b: f32::from_bits(0x7fc0_2000 | (k & 0xfff)),
        c: 0x5a5a_0000u32 as i32 | (k & 0xffff) as i32,
        d: 0xA5 ^ (k as u8),
        s: f32::from_bits(0x7fc0_3000 | (k & 0xfff)),
        z: 0x7a7a_0000u32 as i32 | (k & 0xffff) as i32,
    }
}

//! Run-time side of the generated-program checks (C15, C16): generated programs link this module,
//! hand it the object built by the macro under test and the description of the documented reading,
//! and print one JSON line per case.

use crate::anim::*;
use crate::desc::*;
use crate::oracle::*;
use mina::prelude::*;
use mv_model::{ulp32, ulps_between};
use serde_json::json;

fn close(a: f32, b: f32, ulps: u64) -> bool {
    a.to_bits() == b.to_bits() || (a.is_finite() && b.is_finite() && ulps_between(a, b) <= ulps) || (a == b)
}

/// Compares a timeline built by `timeline!` with the builder reading `descs` (1 = single timeline,
/// more = merged in order). Returns a JSON object with counters, or the first discrepancy.
pub fn compare_timeline(mac: &dyn Timeline<Target = P>, descs: &[TlDesc]) -> Result<serde_json::Value, String> {
    let comps: Vec<PTimeline> = descs.iter().map(|d| d.build()).collect();
    let reference = MergedTimeline::of(comps.iter().cloned());
    // metadata
    if !close(mac.delay(), reference.delay(), 2) {
        return Err(format!("delay() = {:?}, builder reading gives {:?}", mac.delay(), reference.delay()));
    }
    if !close(mac.duration(), reference.duration(), 4) {
        return Err(format!("duration() = {:?}, builder reading gives {:?}", mac.duration(), reference.duration()));
    }
    if mac.repeat() != reference.repeat() {
        return Err(format!("repeat() = {:?}, builder reading gives {:?}", mac.repeat(), reference.repeat()));
    }
    match (mac.cycle_duration(), reference.cycle_duration()) {
        (Some(a), Some(b)) if close(a, b, 2) => {}
        (None, None) => {}
        // a merged list whose members agree only up to a unit-conversion ulp may report None/Some differently
        (a, b) => {
            let all_close = descs.windows(2).all(|w| close(w[0].timing.cycle, w[1].timing.cycle, 2));
            if !(all_close && descs.len() > 1) {
                return Err(format!("cycle_duration() = {:?}, builder reading gives {:?}", a, b));
            }
        }
    }
    let models: Vec<ModelTl> = descs.iter().map(ModelTl::new).collect();
    let base = &descs[0].timing;
    let mut bitwise = 0u32;
    let mut tolerance = 0u32;
    let mut times: Vec<f32> = vec![];
    for d in descs {
        for k in 0..=48 {
            times.push(d.timing.delay + d.timing.cycle * (k as f32 / 16.0));
        }
    }
    times.push(base.delay - 0.5);
    times.push(0.0);
    times.push(1.0e6);
    for &t in &times {
        let (mut x, mut y) = (sentinel(21), sentinel(21));
        mac.update(&mut x, t);
        reference.update(&mut y, t);
        if x.bits() == y.bits() {
            bitwise += 1;
            continue;
        }
        // not bit-identical: acceptable only as the effect of one-ulp unit conversions -> model with budget
        for i in 0..NPROP {
            let owner = models.iter().zip(descs.iter()).rev().find(|(m, _)| m.animates(i));
            match owner {
                None => {
                    if x.bits()[i] != y.bits()[i] {
                        return Err(format!("t={t:?}: property {} is not animated in the builder reading but the macro timeline wrote {:?}", PROP_NAMES[i], x.get(i)));
                    }
                }
                Some((m, d)) => {
                    let tm = d.timing;
                    let extra = 4.0 * ulp32(t) as f64 + 4.0 * ulp32(tm.delay) as f64 + ((t as f64 - tm.delay as f64).abs() / tm.cycle as f64 + 1.0) * 4.0 * ulp32(tm.cycle) as f64;
                    m.judge_window(i, t as f64, extra, None, x.get(i)).map_err(|e| format!("macro timeline vs builder reading (builder gives {}): {e}", y.get(i)))?;
                }
            }
        }
        if x.bits()[4] != y.bits()[4] || x.bits()[5] != y.bits()[5] {
            return Err(format!("t={t:?}: excluded field written"));
        }
        tolerance += 1;
    }
    Ok(json!({"bitwise_times": bitwise, "tolerance_times": tolerance}))
}

/// Drives the animator built by `animator!` and the one built from the builder reading through the
/// same history and compares every observable after every operation, bit for bit.
pub fn compare_animator(mut mac: Anim, desc: &AnimDesc, ops: &[AOp]) -> Result<serde_json::Value, String> {
    let mut reference = desc.build();
    let same = |x: &P, y: &P| x.bits() == y.bits() || (x.a == y.a && x.b == y.b && x.c == y.c && x.d == y.d && x.s == y.s && x.z == y.z);
    let check = |mac: &Anim, reference: &Anim, what: &str| -> Result<(), String> {
        if mac.current_state() != reference.current_state() {
            return Err(format!("{what}: current_state {:?} vs builder {:?}", mac.current_state(), reference.current_state()));
        }
        if !same(mac.current_values(), reference.current_values()) {
            return Err(format!("{what}: current_values {:?} vs builder {:?}", mac.current_values(), reference.current_values()));
        }
        if mac.is_ended() != reference.is_ended() {
            return Err(format!("{what}: is_ended {} vs builder {}", mac.is_ended(), reference.is_ended()));
        }
        Ok(())
    };
    check(&mac, &reference, "initially")?;
    let mut transitions = 0;
    for (n, op) in ops.iter().enumerate() {
        match *op {
            AOp::Adv(step) => {
                let dt = match step {
                    Step::Zero => 0.0,
                    Step::Grid(n) => (n as f64 * GRID_S) as f32,
                    Step::Arb(x) => x.max(0.0),
                    Step::ToEnd { .. } | Step::ToEndCycles { .. } | Step::ToEndUlps { .. } => GRID_S as f32 * 64.0,
                };
                mac.advance(dt);
                reference.advance(dt);
                check(&mac, &reference, &format!("after op {n} advance({dt})"))?;
            }
            AOp::Set(s) => {
                let st = STATES[s as usize % NSTATE];
                if &st != reference.current_state() {
                    transitions += 1;
                }
                mac.set_state(&st);
                reference.set_state(&st);
                check(&mac, &reference, &format!("after op {n} set_state({:?})", st))?;
            }
        }
    }
    Ok(json!({"ops": ops.len(), "transitions": transitions}))
}

//! C01, C02, C08, C09, C10, C11, C12: properties of single and merged timelines.

use mv_core::desc::*;
use mv_core::oracle::*;
use mina::prelude::*;
use mv_engine::{Obs, Run};
use mv_model::{exact32, ulps_between, Locate, Phase, Rep, Timing};
use proptest::prelude::*;
use serde::{Deserialize, Serialize};

// =============================================================================================
// C01

#[derive(Clone, Debug, Serialize, Deserialize)]
pub struct C01Case {
    pub tl: TlDesc,
    pub start: Option<Vals>,
    pub times: Vec<TimeSpec>,
    pub prefill: Vals,
}

pub fn c01_strategy() -> impl Strategy<Value = C01Case> {
    (tl_strategy(), prop::option::weighted(0.4, vals_strategy()), prop::collection::vec(timespec_strategy(), 12), vals_strategy()).prop_map(|(tl, start, times, prefill)| {
        let back = tl.uses_back();
        C01Case { tl, start: start.map(|v| sanitize_vals(v, back)), times, prefill }
    })
}

pub const C01_LABELS: [&str; 19] = [
    "strict", "near_boundary", "first_segment", "last_segment", "inner_segment", "synthetic_0pct", "synthetic_100pct_hold",
    "easing_default", "easing_inherited", "easing_own", "easing_on_kf_omitting_prop", "repeated_positions", "override_active",
    "reverse_pass", "cycle_ge_1", "exact_hit", "near_phase_boundary", "near_coarse_time", "near_multi_frame_window",
];

pub fn c01_judge(c: &C01Case, obs: &mut Obs) -> Result<(), String> {
    let model = ModelTl::new(&c.tl);
    let mut tl = c.tl.build();
    if let Some(v) = &c.start {
        tl.start_with(&P::from_vals(v));
    }
    // structural labels
    {
        let mut ps: Vec<u32> = c.tl.kfs.iter().map(|k| k.pos.to_bits()).collect();
        ps.sort();
        let n0 = ps.len();
        ps.dedup();
        obs.label_if(11, ps.len() != n0);
        for i in 0..NPROP {
            if c.tl.kfs.iter().any(|k| k.ez.is_some() && k.get(i).is_none()) && model.animates(i) {
                obs.label(10);
            }
        }
    }
    for ts in &c.times {
        let t = ts.resolve(&c.tl);
        if !t.is_finite() {
            obs.skipped += 1;
            continue;
        }
        let mut target = P::from_vals(&c.prefill);
        tl.update(&mut target, t);
        for i in 0..NPROP {
            if !model.animates(i) {
                continue;
            }
            let start = c.start.as_ref().map(|v| v.get(i));
            let j = model.judge(i, t, start, target.get(i)).map_err(|e| format!("{e} [spec {ts:?}]"))?;
            obs.judged += 1;
            if j.near {
                obs.near += 1;
                obs.label(1);
                obs.label_if(16, j.near_reason == 1);
                obs.label_if(17, j.near_reason == 2);
                obs.label_if(18, j.near_reason == 3);
            }
            if j.strict {
                obs.label(0);
                if !j.hit && j.phase_kind == 1 {
                    obs.label_if(2, j.seg == 0);
                    obs.label_if(3, j.seg + 1 == j.nsegs);
                    obs.label_if(4, j.seg > 0 && j.seg + 1 < j.nsegs);
                    obs.label_if(5, j.synthetic0);
                    obs.label_if(6, j.synthetic1);
                    obs.label_if(7, j.easing_src == 0);
                    obs.label_if(8, j.easing_src == 1);
                    obs.label_if(9, j.easing_src == 2);
                    obs.label_if(12, j.override_active);
                    obs.label_if(13, j.reversing);
                    obs.label_if(14, j.cycle >= 1);
                }
                if j.nontrivial {
                    obs.nontrivial = true;
                }
            }
            obs.label_if(15, j.hit);
        }
    }
    Ok(())
}

pub fn c01(run: &mut Run) {
    run.assume("built-in easing curves are evaluated as a black box by the model (their shape is C13's subject)");
    run.assume("f32 rounding is bounded by the per-case error budget of DESIGN 2.5; cases within the budget of a discontinuity are judged by the range rule and counted as near_boundary");
    let cases = run.tier.pick(1_000_000, 20_000_000);
    run.prop(
        "c01_model",
        "proptest: keyframe sets (0-8, repeated positions, partial property subsets, per-keyframe easing) x default easing x timing x optional start_with x 12 TimeSpecs, built via derive(Animate)+builder; judged against the f64 reference model; non-trivial = some judgement strictly inside a segment with different end values in the Active phase; distinct = hash of the case",
        &C01_LABELS,
        c01_strategy(),
        cases,
        c01_judge,
    );
    for l in ["first_segment", "last_segment", "synthetic_0pct", "synthetic_100pct_hold", "easing_inherited", "override_active", "reverse_pass", "cycle_ge_1", "easing_on_kf_omitting_prop"] {
        run.require_label("c01_model", l, 0.01);
    }
    crate::fuzzdrv::campaign(run, "fz_c01", 19_200_000);
    structural_exhaustive(run, "c01_structural_exhaustive", false);
    keyframe_counts(run);
}

/// Timelines with MANY keyframes: counts either side of every width an index could be narrowed to
/// (2^8, 2^9, 2^12, 2^16) and a few in between; every segment around those indices plus a regular
/// sample of the rest is evaluated at its midpoint and at its left keyframe and judged by the model.
fn keyframe_counts(run: &mut Run) {
    let sizes: Vec<u32> = if run.tier == mv_engine::Tier::Quick && !run.is_replay() { vec![3, 127, 129, 255, 256, 257, 258, 259, 300, 511, 513, 1000] } else { vec![3, 127, 129, 255, 256, 257, 258, 259, 300, 511, 513, 1000, 4095, 4097, 32767, 32769, 65535, 65536, 65537, 65538, 70001] };
    let variants = 4u64;
    let total = sizes.len() as u64 * variants;
    run.enumerate(
        "c01_keyframe_counts",
        "keyframe counts n in {3, 127, 129, 255..259, 300, 511, 513, 1000} (thorough: also 4095, 4097, 32767, 32769, 65535..65538, 70001) at positions j/(n-1) x 4 variants (ascending / descending insertion; per-keyframe easings every 50th keyframe; reverse + repeat + delay + start_with): property a on every keyframe, c on every 3rd, b on every 64th, values (37 j mod 101) x 8 so that neighbouring segments differ grossly; every segment for n <= 1100, otherwise the segments around indices 2^8, 2^9, 2^12, 2^15, 2^16, the ends and a stride of n/1500, each at its midpoint and at its left keyframe, judged against the f64 model; non-trivial = every configuration with n >= 127; every index a distinct configuration",
        total,
        1,
        true,
        move |range, eo| {
            for idx in range {
                let n = sizes[(idx / variants) as usize] as usize;
                let variant = idx % variants;
                let val = |j: usize| ((j * 37) % 101) as f32 * 8.0;
                let mut kfs: Vec<KfDesc> = (0..n)
                    .map(|j| KfDesc {
                        pos: j as f32 / (n - 1) as f32,
                        a: Some(val(j)),
                        b: if j % 64 == 0 { Some(-val(j)) } else { None },
                        c: if j % 3 == 0 { Some(val(j) as i32 * 3) } else { None },
                        d: None,
                        ez: if variant == 2 && j % 50 == 7 { Some([Ez::InQuad, Ez::OutCubic, Ez::InOutSine][(j / 50) % 3]) } else { None },
                    })
                    .collect();
                if variant == 1 {
                    kfs.reverse();
                }
                let timing = if variant == 3 { Timing { cycle: 2.0, delay: 1.0, repeat: Rep::Times(1), reverse: true } } else { Timing { cycle: 1.0, delay: 0.0, repeat: Rep::None, reverse: false } };
                let desc = TlDesc { timing, default_ez: Ez::Linear, kfs, order: (idx % 4) as u8 };
                let model = ModelTl::new(&desc);
                let mut tl = desc.build();
                let start = Vals { a: 4096.0, b: -2048.0, c: 8192, d: 9 };
                let with_start = variant == 3;
                if with_start {
                    tl.start_with(&P::from_vals(&start));
                }
                let mut segs: Vec<usize> = vec![];
                if n <= 1100 {
                    segs.extend(0..n - 1);
                } else {
                    for c in [0usize, 256, 512, 4096, 32768, 65536, n - 4] {
                        for j in c.saturating_sub(6)..(c + 6).min(n - 1) {
                            segs.push(j);
                        }
                    }
                    let stride = (n / 1500).max(1);
                    segs.extend((0..n - 1).step_by(stride));
                    segs.sort();
                    segs.dedup();
                }
                let small = serde_json::json!({"index": idx, "keyframes": n, "variant": variant});
                for &j in &segs {
                    let (p0, p1) = (j as f32 / (n - 1) as f32, (j + 1) as f32 / (n - 1) as f32);
                    for pos in [p0, (p0 as f64 * 0.5 + p1 as f64 * 0.5) as f32] {
                        // times at which the position is `pos`: forward pass of each cycle (and the reverse pass)
                        let times: Vec<f32> = if variant == 3 { vec![1.0 + pos, 1.0 + (2.0 - pos), 3.0 + pos] } else { vec![pos] };
                        for t in times {
                            let mut target = sentinel(5);
                            tl.update(&mut target, t);
                            for i in 0..3 {
                                let st = if with_start { Some(start.get(i)) } else { None };
                                if let Err(e) = model.judge(i, t, st, target.get(i)) {
                                    return Err((small.clone(), format!("{n} keyframes, variant {variant}, segment {j}: {e}")));
                                }
                                eo.evaluated += 1;
                            }
                        }
                    }
                }
                if n >= 127 {
                    eo.nontrivial += 1;
                }
                eo.sample(|| small.clone());
            }
            Ok(())
        },
    );
}

/// Exhaustive enumeration of keyframe *structures* on a coarse grid: every non-empty subset of the
/// positions {0, 1/4, 1/2, 3/4, 1}, every assignment of "defines a / defines b / defines both" to the
/// chosen keyframes (4^5 - 1 = 1023 structures), x 6 timing variants (reverse x {no repeat, 1x, 2x})
/// x 2 insertion orders x with/without start value. Linear easing, values multiples of 16: keyframe hits
/// and every sample point whose segment fraction is exactly representable are judged with EQUALITY, the
/// remaining sample points with the derived tolerance.
fn structural_exhaustive(run: &mut Run, name: &str, hits_only: bool) {
    let total: u64 = 1023 * 6 * 2 * 2;
    run.enumerate(
        name,
        "ALL 1023 keyframe structures over the positions {0,1/4,1/2,3/4,1} (each chosen keyframe defines a, b or both) x {reverse on/off} x {no repeat, 1x, 2x} x {ascending, descending insertion} x {with, without start_with}; linear easing and values k*16; sampled at every 1/16 of every cycle: keyframe hits and all points whose segment fraction is exactly representable must match the f64 model with EQUALITY, the others within the derived tolerance; non-trivial = structure with a synthetic 0 % or 100 % frame or a keyframe omitting a property; every index a distinct configuration",
        total,
        32,
        true,
        |range, eo| {
            for idx in range {
                let mut code = idx;
                let with_start = code % 2 == 1;
                code /= 2;
                let descending = code % 2 == 1;
                code /= 2;
                let tv = code % 6;
                code /= 6;
                let mut digits = [0u8; 5]; // base-4 digits, structure number 1..=1023
                let mut st = code + 1;
                for d in digits.iter_mut() {
                    *d = (st % 4) as u8;
                    st /= 4;
                }
                let mut kfs = vec![];
                for (i, d) in digits.iter().enumerate() {
                    if *d == 0 {
                        continue;
                    }
                    let pos = i as f32 / 4.0;
                    let va = 16.0 * (3 * i as i32 - 4) as f32 * if i % 2 == 0 { 1.0 } else { -1.0 };
                    let vb = 32.0 * (i as f32 + 1.0);
                    kfs.push(KfDesc { pos, a: if *d & 1 != 0 { Some(va) } else { None }, b: if *d & 2 != 0 { Some(vb) } else { None }, c: if *d & 1 != 0 { Some(va as i32 * 4) } else { None }, d: None, ez: None });
                }
                if descending {
                    kfs.reverse();
                }
                let timing = Timing { cycle: 4.0, delay: 2.0, repeat: [Rep::None, Rep::Times(1), Rep::Times(2)][(tv % 3) as usize], reverse: tv >= 3 };
                let desc = TlDesc { timing, default_ez: Ez::Linear, kfs, order: (idx % 4) as u8 };
                let model = ModelTl::new(&desc);
                let mut tl = desc.build();
                let start = Vals { a: 1024.0, b: -2048.0, c: 4096, d: 9 };
                if with_start {
                    tl.start_with(&P::from_vals(&start));
                }
                let cycles = timing.repeat.cycles().unwrap();
                let fail = |d: String| (serde_json::json!({"index": idx, "desc": desc, "with_start": with_start}), d);
                let mut nontrivial = false;
                // sample points: every 1/16 of every cycle (keyframe hits, midpoints, quarter points), plus before/after
                let steps = if timing.reverse { 32 } else { 16 };
                let mut times: Vec<f32> = vec![0.0, 1.0, 2.0];
                for k in 0..cycles {
                    for j in 0..=steps {
                        times.push(2.0 + 4.0 * (k as f32 + j as f32 / steps as f32));
                    }
                }
                times.push(2.0 + 4.0 * cycles as f32 + 0.5);
                times.push(1.0e6);
                for t in times {
                    let mut target = sentinel(3);
                    tl.update(&mut target, t);
                    let ph = timing.phase(t as f64);
                    for i in 0..3 {
                        let fr = &model.frames[i];
                        if fr.is_empty() {
                            if target.bits()[i] != sentinel(3).bits()[i] {
                                return Err(fail(format!("property {} has no keyframe but was modified at t={t}", PROP_NAMES[i])));
                            }
                            continue;
                        }
                        let st = if with_start { Some(start.get(i)) } else { None };
                        let ev = mv_model::eval(fr, ph.pos(), st, ph.first_forward_pass(), &|e: &Ez, x: f64| e.model(x)).unwrap();
                        if hits_only && !ev.hit {
                            continue;
                        }
                        if ev.ambiguous {
                            continue;
                        }
                        let want = if PROP_IS_INT[i] { ev.value.round() } else { ev.value };
                        // ints: .5 ties may round either way
                        let tie = PROP_IS_INT[i] && (ev.value - ev.value.floor() - 0.5).abs() < 1e-9;
                        let got = target.get(i);
                        // equality where the segment fraction and the value are exactly representable
                        // (power-of-two segment widths); the derived tolerance elsewhere
                        let exact_point = ev.hit || (exact32(ev.x) && exact32(ev.value) && exact32(1.0 - ev.x));
                        if !exact_point {
                            if let Err(e) = model.judge(i, t, st, got) {
                                return Err(fail(e));
                            }
                            eo.evaluated += 1;
                            continue;
                        }
                        if got != want && !(tie && (got - ev.value).abs() <= 0.5) {
                            return Err(fail(format!("property {} at t={t} (phase {:?}): got {got}, exact model value {} (segment {} of {:?})", PROP_NAMES[i], ph, ev.value, ev.seg, fr.iter().map(|f| (f.pos, f.value)).collect::<Vec<_>>())));
                        }
                        if fr[0].synthetic || fr[fr.len() - 1].synthetic {
                            nontrivial = true;
                        }
                        eo.evaluated += 1;
                    }
                }
                if digits.iter().any(|d| *d == 1 || *d == 2) {
                    nontrivial = true;
                }
                if nontrivial {
                    eo.nontrivial += 1;
                }
                if idx % 3001 == 0 {
                    eo.sample(|| serde_json::json!({"index": idx, "desc": desc, "with_start": with_start}));
                }
            }
            Ok(())
        },
    );
}

// =============================================================================================
// C02: exact domain

#[derive(Clone, Debug, Serialize, Deserialize)]
pub struct C02Case {
    pub tl: TlDesc,
    pub start: Option<Vals>,
    /// 0 = the timeline itself; 1 = `MergedTimeline::of([tl])`; 2 = `MergedTimeline::of([tl, tl])`
    /// (merged timelines are timelines too: same instants, same values)
    #[serde(default)]
    pub wrap: u8,
}

fn dyadic_timing_strategy() -> impl Strategy<Value = Timing> {
    (0u32..=4).prop_flat_map(|j| {
        let den = (1u32 << j) as f32;
        (
            (1u32..=64).prop_map(move |m| m as f32 / den),
            prop_oneof![2 => Just(0.0f32), 3 => (0u32..=64).prop_map(move |n| n as f32 / den)],
            prop_oneof![3 => Just(Rep::None), 5 => (0u32..=4).prop_map(Rep::Times), 2 => Just(Rep::Infinite)],
            any::<bool>(),
        )
            .prop_map(|(cycle, delay, repeat, reverse)| Timing { cycle, delay, repeat, reverse })
    })
}

fn dyadic_kf_strategy() -> impl Strategy<Value = KfDesc> {
    kf_strategy(ez_strategy()).prop_flat_map(|k| (0u32..=16).prop_map(move |q| KfDesc { pos: q as f32 / 16.0, ..k.clone() }))
}

pub fn c02_strategy() -> impl Strategy<Value = C02Case> {
    (dyadic_timing_strategy(), ez_strategy(), prop::collection::vec(dyadic_kf_strategy(), 0..=7), prop::option::weighted(0.3, vals_strategy()), prop_oneof![6 => Just(0u8), 1 => Just(1u8), 1 => Just(2u8)], 0u8..8).prop_map(
        |(timing, default_ez, kfs, start, wrap, order)| {
            let tl = TlDesc { timing, default_ez, kfs, order }.sanitize();
            let back = tl.uses_back();
            C02Case { tl, start: start.map(|v| sanitize_vals(v, back)), wrap }
        },
    )
}

pub const C02_LABELS: [&str; 10] = ["kf_hit", "kf_hit_distinct_from_neighbours", "reverse_pass_hit", "cycle_ge_1_hit", "before_delay", "end_of_forward_pass", "after_total", "ambiguous_position_skipped", "not_representable_skipped", "through_merged_wrapper"];

fn float_close(got: f32, want: f64, ulps: u64) -> bool {
    let w = want as f32;
    got == w || (got.is_finite() && ulps_between(got, w) <= ulps)
}

fn c02_expect(i: usize, target: &P, want: f64, what: &str, t: f32) -> Result<(), String> {
    let ok = if PROP_IS_INT[i] { target.get(i) == want } else { float_close(target.get(i) as f32, want, 2) };
    if ok {
        Ok(())
    } else {
        Err(format!("prop {} at t={t:?} ({what}): got {}, expected exactly {}", PROP_NAMES[i], target.get(i), want))
    }
}

pub fn c02_judge(c: &C02Case, obs: &mut Obs) -> Result<(), String> {
    let model = ModelTl::new(&c.tl);
    let tm = c.tl.timing;
    let mut tl: Box<dyn Timeline<Target = P>> = match c.wrap {
        0 => Box::new(c.tl.build()),
        1 => Box::new(MergedTimeline::of([c.tl.build()])),
        _ => Box::new(MergedTimeline::of([c.tl.build(), c.tl.build()])),
    };
    obs.label_if(9, c.wrap != 0);
    if let Some(v) = &c.start {
        tl.start_with(&P::from_vals(v));
    }
    let cc = tm.cycle as f64;
    let d = tm.delay as f64;
    let ncycles = tm.repeat.cycles();
    let max_k = ncycles.map(|n| n - 1).unwrap_or(5).min(5);
    let start_of = |i: usize| c.start.as_ref().map(|v| v.get(i));
    let eval_at = |t: f32| {
        let mut target = sentinel(7);
        tl.update(&mut target, t);
        target
    };
    // 1. every keyframe x every cycle (x both passes when reversing)
    let mut ks: Vec<u64> = (0..=max_k).collect();
    if ncycles.is_none() {
        ks.push(1000);
    }
    for &k in &ks {
        for kf in &c.tl.kfs {
            let p = kf.pos as f64;
            let withins: Vec<(f64, bool)> = if tm.reverse { vec![(p / 2.0, false), (1.0 - p / 2.0, true)] } else { vec![(p, false)] };
            for (w, rev) in withins {
                let s = cc * (k as f64 + w);
                let t64 = d + s;
                if !(exact32(t64) && exact32(s) && exact32(cc * k as f64) && exact32(cc * w)) {
                    obs.skipped += 1;
                    obs.label(8);
                    continue;
                }
                let t = t64 as f32;
                let ph = tm.phase(t64);
                let target = eval_at(t);
                for i in 0..NPROP {
                    let fr = &model.frames[i];
                    if fr.is_empty() {
                        continue;
                    }
                    match mv_model::locate(fr, ph.pos()) {
                        Locate::Hit { first, last } if first == last => {
                            let want = mv_model::frame_value(fr, first, start_of(i), ph.first_forward_pass());
                            c02_expect(i, &target, want, &format!("keyframe hit pos {} cycle {k} rev {rev} phase {ph:?}", ph.pos()), t)?;
                            obs.judged += 1;
                            obs.label(0);
                            obs.label_if(2, rev);
                            obs.label_if(3, k >= 1);
                            let differs = |j: usize| (fr[j].value != want);
                            let left = first == 0 || differs(first - 1);
                            let right = first + 1 >= fr.len() || differs(first + 1);
                            if left && right && fr.len() > 1 && !fr[first].synthetic {
                                obs.nontrivial = true;
                                obs.label(1);
                            }
                        }
                        Locate::Hit { .. } => {
                            obs.skipped += 1;
                            obs.label(7);
                        }
                        _ => {}
                    }
                }
            }
        }
        // 2. end of every forward pass -> 100 % value
        let w_end = if tm.reverse { 0.5 } else { 1.0 };
        let s = cc * (k as f64 + w_end);
        let t64 = d + s;
        if exact32(t64) && exact32(s) && exact32(cc * k as f64) {
            let t = t64 as f32;
            let target = eval_at(t);
            for i in 0..NPROP {
                let fr = &model.frames[i];
                if fr.is_empty() {
                    continue;
                }
                let last = fr.len() - 1;
                // unique definer at 100 %?
                if last >= 1 && fr[last - 1].pos == 1.0 {
                    obs.skipped += 1;
                    continue;
                }
                // a single frame list [0 %, 100 %] with override: 100 % frame is never the overridden one
                c02_expect(i, &target, fr[last].value, &format!("end of forward pass of cycle {k}"), t)?;
                obs.judged += 1;
                obs.label(5);
            }
        } else {
            obs.skipped += 1;
        }
    }
    // 3. up to the delay -> 0 % value (or the substituted start value)
    let mut before: Vec<f32> = vec![tm.delay, mv_model::step32(tm.delay, -1), tm.delay - 1.0, tm.delay / 2.0, -1.0, -1.0e6];
    if tm.delay >= 0.0 {
        before.push(0.0);
    }
    for t in before {
        if !(t <= tm.delay) {
            continue;
        }
        let target = eval_at(t);
        for i in 0..NPROP {
            let fr = &model.frames[i];
            if fr.is_empty() {
                continue;
            }
            if fr.len() > 1 && fr[1].pos == 0.0 {
                obs.skipped += 1;
                continue;
            }
            let want = start_of(i).unwrap_or(fr[0].value);
            c02_expect(i, &target, want, "time <= delay", t)?;
            obs.judged += 1;
            obs.label(4);
        }
    }
    // 4. at / after the total duration -> terminal value, never changing again
    if let Some(n) = ncycles {
        let total = d + cc * n as f64;
        if exact32(total) && exact32(cc * n as f64) {
            let tt = total as f32;
            let mut reference: Option<P> = None;
            for t in [tt, mv_model::step32(tt, 1), tt + 0.125, tt + 1.0e3, 1.0e9, f32::MAX / 4.0] {
                if !(t >= tt) {
                    continue;
                }
                let target = eval_at(t);
                for i in 0..NPROP {
                    let fr = &model.frames[i];
                    if fr.is_empty() {
                        continue;
                    }
                    let amb = if tm.reverse { fr.len() > 1 && fr[1].pos == 0.0 } else { fr.len() > 1 && fr[fr.len() - 2].pos == 1.0 };
                    if amb {
                        obs.skipped += 1;
                        continue;
                    }
                    c02_expect(i, &target, model.terminal(i).unwrap(), "at/after total duration", t)?;
                    obs.judged += 1;
                    obs.label(6);
                }
                match &reference {
                    None => reference = Some(target),
                    Some(r) => {
                        if r.bits() != target.bits() {
                            return Err(format!("values still change after the total duration: at t={tt:?} {r:?}, at t={t:?} {target:?}"));
                        }
                    }
                }
            }
        } else {
            obs.skipped += 1;
            obs.label(8);
        }
    }
    Ok(())
}

pub fn c02(run: &mut Run) {
    run.assume("exact domain: cycle m/2^j, delay n/2^j, positions q/16, times delay+cycle*(k+p) verified representable in f32 when the case is interpreted (others counted as skipped)");
    let cases = run.tier.pick(1_000_000, 5_000_000);
    run.prop(
        "c02_exact",
        "proptest over dyadic configurations (a quarter of them queried through MergedTimeline::of([tl]) / of([tl, tl]) wrappers); inside each case EVERY keyframe x EVERY cycle k (x both passes when reversing), end of every forward pass, 7 times <= delay, 6 times >= total are judged with equality (ints exact, floats <= 2 ulp); non-trivial = a keyframe hit whose value differs from both neighbours; distinct = hash of the case",
        &C02_LABELS,
        c02_strategy(),
        cases,
        c02_judge,
    );
    for l in ["kf_hit_distinct_from_neighbours", "reverse_pass_hit", "cycle_ge_1_hit", "end_of_forward_pass", "after_total", "before_delay"] {
        run.require_label("c02_exact", l, 0.05);
    }
    structural_exhaustive(run, "c02_structural_exhaustive", true);
    crate::fuzzdrv::campaign(run, "fz_c02", 14_400_000);
}

// =============================================================================================
// C08: un-animated properties are never touched (timeline level; animator level is in c_animator)

#[derive(Clone, Debug, Serialize, Deserialize)]
pub struct C08Case {
    pub tls: Vec<TlDesc>,
    /// which properties are removed from every keyframe (bit i)
    pub drop_mask: u8,
    pub start: Option<Vals>,
    pub times: Vec<TimeSpec>,
    pub sentinel: u32,
}

pub fn c08_strategy() -> impl Strategy<Value = C08Case> {
    (prop::collection::vec(tl_strategy(), 1..=3), 0u8..16, prop::option::weighted(0.3, vals_strategy()), prop::collection::vec(timespec_strategy(), 10), any::<u32>()).prop_map(
        |(mut tls, drop_mask, start, times, sentinel)| {
            for tl in &mut tls {
                for k in &mut tl.kfs {
                    if drop_mask & 1 != 0 {
                        k.a = None;
                    }
                    if drop_mask & 2 != 0 {
                        k.b = None;
                    }
                    if drop_mask & 4 != 0 {
                        k.c = None;
                    }
                    if drop_mask & 8 != 0 {
                        k.d = None;
                    }
                }
            }
            let back = tls.iter().any(|t| t.uses_back());
            C08Case { tls, drop_mask, start: start.map(|v| sanitize_vals(v, back)), times, sentinel }
        },
    )
}

pub const C08_LABELS: [&str; 8] = ["some_prop_unanimated", "all_unanimated_or_empty", "merged", "not_started", "active", "ended", "reversing_or_repeating", "with_start_value"];

pub fn c08_judge(c: &C08Case, obs: &mut Obs) -> Result<(), String> {
    let models: Vec<ModelTl> = c.tls.iter().map(ModelTl::new).collect();
    let animated: Vec<bool> = (0..NPROP).map(|i| models.iter().any(|m| m.animates(i))).collect();
    let n_anim = animated.iter().filter(|x| **x).count();
    obs.label_if(0, n_anim < NPROP && n_anim > 0);
    obs.label_if(1, n_anim == 0);
    obs.label_if(2, c.tls.len() > 1);
    obs.label_if(7, c.start.is_some());
    let singles: Vec<PTimeline> = c.tls.iter().map(|t| t.build()).collect();
    let mut merged = MergedTimeline::of(singles.iter().cloned());
    let mut single0 = singles[0].clone();
    if let Some(v) = &c.start {
        merged.start_with(&P::from_vals(v));
        single0.start_with(&P::from_vals(v));
    }
    let untouched0: Vec<bool> = (0..NPROP).map(|i| !models[0].animates(i)).collect();
    for (n, ts) in c.times.iter().enumerate() {
        let t = ts.resolve(&c.tls[0]);
        let sent = sentinel(c.sentinel.wrapping_add(n as u32));
        let sb = sent.bits();
        let ph = c.tls[0].timing.phase(t as f64);
        match ph {
            Phase::NotStarted => obs.label(3),
            Phase::Active { cycle, reversing, .. } => {
                obs.label(4);
                obs.label_if(6, cycle > 0 || reversing);
            }
            Phase::Ended { .. } => obs.label(5),
        }
        // (a) the single timeline
        let mut target = sent.clone();
        single0.update(&mut target, t);
        let tb = target.bits();
        for i in 0..NPROP {
            if untouched0[i] && tb[i] != sb[i] {
                return Err(format!("single timeline modified un-animated property {} at t={t:?}: sentinel bits {:#x} -> {:#x}", PROP_NAMES[i], sb[i], tb[i]));
            }
        }
        if tb[4] != sb[4] || tb[5] != sb[5] {
            return Err(format!("single timeline modified an excluded field at t={t:?}: {:?} -> {:?}", sent, target));
        }
        // (b) merged
        let mut target = sent.clone();
        merged.update(&mut target, t);
        let tb = target.bits();
        for i in 0..NPROP {
            if !animated[i] && tb[i] != sb[i] {
                return Err(format!("merged timeline modified un-animated property {} at t={t:?}: sentinel bits {:#x} -> {:#x}", PROP_NAMES[i], sb[i], tb[i]));
            }
        }
        if tb[4] != sb[4] || tb[5] != sb[5] {
            return Err(format!("merged timeline modified an excluded field at t={t:?}: {:?} -> {:?}", sent, target));
        }
        obs.judged += 2;
        if (untouched0.iter().any(|x| *x)) && t != 0.0 {
            obs.nontrivial = true;
        }
    }
    Ok(())
}

pub fn c08(run: &mut Run) {
    let cases = run.tier.pick(300_000, 10_000_000);
    run.prop(
        "c08_sentinel",
        "proptest: 1-3 timelines with a random subset of properties stripped from every keyframe (incl. all = empty timeline), NaN-payload sentinel target, 10 TimeSpecs over all phases, single and merged; oracle = bit pattern of un-animated properties and of the two excluded fields unchanged; non-trivial = at least one property un-animated and t != 0",
        &C08_LABELS,
        c08_strategy(),
        cases,
        c08_judge,
    );
    for l in ["some_prop_unanimated", "all_unanimated_or_empty", "not_started", "active", "ended", "reversing_or_repeating"] {
        run.require_label("c08_sentinel", l, 0.05);
    }
    mv_core::c_animator::c08_animator(run);
    crate::fuzzdrv::campaign(run, "fz_c08", 19_200_000);
}

// =============================================================================================
// C09: purity

#[derive(Clone, Debug, Serialize, Deserialize)]
pub enum C09Op {
    /// update timeline #sel at time spec with garbage target #g
    Update { sel: u16, ts: TimeSpec, g: u32, prefill: Option<Vals> },
    Clone { sel: u16 },
    StartWith { sel: u16, v: Vals },
    /// start_with the timeline's OWN 0 % values (type default where it has none): a "no-op looking"
    /// substitution that must still replace an earlier one
    StartWithOwn { sel: u16 },
    /// update twice in a row on the same target
    Twice { sel: u16, ts: TimeSpec },
}

#[derive(Clone, Debug, Serialize, Deserialize)]
pub struct C09Case {
    pub tl: TlDesc,
    pub ops: Vec<C09Op>,
    /// run the script on `MergedTimeline::of([timeline])` wrappers (and their clones) instead
    #[serde(default)]
    pub wrap: bool,
}

pub fn c09_strategy() -> impl Strategy<Value = C09Case> {
    let op = prop_oneof![
        6 => (any::<u16>(), timespec_strategy(), any::<u32>(), prop::option::weighted(0.5, vals_strategy())).prop_map(|(sel, ts, g, prefill)| C09Op::Update { sel, ts, g, prefill }),
        2 => any::<u16>().prop_map(|sel| C09Op::Clone { sel }),
        2 => (any::<u16>(), vals_strategy()).prop_map(|(sel, v)| C09Op::StartWith { sel, v }),
        1 => any::<u16>().prop_map(|sel| C09Op::StartWithOwn { sel }),
        1 => (any::<u16>(), timespec_strategy()).prop_map(|(sel, ts)| C09Op::Twice { sel, ts }),
    ];
    (tl_strategy(), prop::collection::vec(op, 1..=30), prop::bool::weighted(0.35)).prop_map(|(tl, ops, wrap)| C09Case { tl, ops, wrap })
}

pub const C09_LABELS: [&str; 6] = ["backwards_step", "clone_used_after_source_mutated", "two_start_with_on_one", "garbage_prefill", "twice", "merged_wrapper"];

pub fn c09_judge(c: &C09Case, obs: &mut Obs) -> Result<(), String> {
    if c.wrap {
        obs.label(5);
        c09_run(c, obs, &|| MergedTimeline::of([c.tl.build()]))
    } else {
        c09_run(c, obs, &|| c.tl.build())?;
        // the same through a MergedTimeline wrapper at the end: a clone gives identical results
        let base = c.tl.build();
        let m = MergedTimeline::of([base.clone()]);
        let m2 = m.clone();
        for ts in [TimeSpec::Frac { k: 0, num: 1, den: 2 }, TimeSpec::Far(3)] {
            let t = ts.resolve(&c.tl);
            let (mut x, mut y, mut z) = (sentinel(5), sentinel(5), sentinel(5));
            m.update(&mut x, t);
            m2.update(&mut y, t);
            base.update(&mut z, t);
            if x.bits() != y.bits() || x.bits() != z.bits() {
                return Err(format!("merged wrapper/clone differs at t={t:?}: {:?} / {:?} / {:?}", x, y, z));
            }
        }
        Ok(())
    }
}

fn c09_run<T: Timeline<Target = P> + Clone>(c: &C09Case, obs: &mut Obs, build: &dyn Fn() -> T) -> Result<(), String> {
    let back = c.tl.uses_back();
    // live timelines, each with the start value a fresh twin needs (latest start_with only)
    struct Live<T> {
        tl: T,
        start: Option<Vals>,
        n_start: u32,
        last_t: Option<f32>,
        src_mutated_after_clone: bool,
        parent: Option<usize>,
    }
    let mut live: Vec<Live<T>> = vec![Live { tl: build(), start: None, n_start: 0, last_t: None, src_mutated_after_clone: false, parent: None }];
    let meta0 = {
        let t = &live[0].tl;
        (t.delay().to_bits(), t.cycle_duration().map(|x| x.to_bits()), t.duration().to_bits(), t.repeat())
    };
    let twin = |start: &Option<Vals>| {
        let mut t = build();
        if let Some(v) = start {
            t.start_with(&P::from_vals(v));
        }
        t
    };
    for (n, op) in c.ops.iter().enumerate() {
        match op {
            C09Op::Update { sel, ts, g, prefill } => {
                let idx = mv_engine::pick_idx(*sel, live.len());
                let t = ts.resolve(&c.tl);
                let mut target = match prefill {
                    Some(v) => P::from_vals(v),
                    None => sentinel(*g),
                };
                obs.label_if(3, prefill.is_none());
                let mut clean = sentinel(1);
                live[idx].tl.update(&mut target, t);
                twin(&live[idx].start).update(&mut clean, t);
                // compare animated properties only (un-animated keep the respective prior contents)
                let model_anim: Vec<bool> = (0..NPROP).map(|i| c.tl.kfs.iter().any(|k| k.get(i).is_some())).collect();
                let (tb, cb) = (target.bits(), clean.bits());
                for i in 0..NPROP {
                    if model_anim[i] && tb[i] != cb[i] {
                        return Err(format!(
                            "op {n}: update of timeline #{idx} at t={t:?} gives {} = {:#x} but a fresh twin (same description, latest start_with {:?}) gives {:#x}",
                            PROP_NAMES[i], tb[i], live[idx].start, cb[i]
                        ));
                    }
                }
                if let Some(lt) = live[idx].last_t {
                    obs.label_if(0, t < lt);
                }
                live[idx].last_t = Some(t);
                if live[idx].src_mutated_after_clone {
                    obs.label(1);
                }
                obs.judged += 1;
            }
            C09Op::Twice { sel, ts } => {
                let idx = mv_engine::pick_idx(*sel, live.len());
                let t = ts.resolve(&c.tl);
                let mut target = sentinel(3);
                live[idx].tl.update(&mut target, t);
                let first = target.bits();
                live[idx].tl.update(&mut target, t);
                if target.bits() != first {
                    return Err(format!("op {n}: evaluating twice at t={t:?} is not idempotent: {:?} then {:?}", first, target.bits()));
                }
                obs.label(4);
                obs.judged += 1;
            }
            C09Op::Clone { sel } => {
                if live.len() >= 6 {
                    continue;
                }
                let idx = mv_engine::pick_idx(*sel, live.len());
                let cl = live[idx].tl.clone();
                let st = live[idx].start;
                live.push(Live { tl: cl, start: st, n_start: 0, last_t: None, src_mutated_after_clone: false, parent: Some(idx) });
            }
            C09Op::StartWith { .. } | C09Op::StartWithOwn { .. } => {
                let (sel, v) = match op {
                    C09Op::StartWith { sel, v } => (sel, *v),
                    C09Op::StartWithOwn { sel } => (sel, own_start_values(&c.tl)),
                    _ => unreachable!(),
                };
                let idx = mv_engine::pick_idx(*sel, live.len());
                let v = sanitize_vals(v, back);
                live[idx].tl.start_with(&P::from_vals(&v));
                live[idx].start = Some(v);
                live[idx].n_start += 1;
                obs.label_if(2, live[idx].n_start >= 2);
                for l in live.iter_mut() {
                    if l.parent == Some(idx) {
                        l.src_mutated_after_clone = true;
                    }
                }
            }
        }
        // metadata never changes, on any live timeline
        for (k, l) in live.iter().enumerate() {
            let m = (l.tl.delay().to_bits(), l.tl.cycle_duration().map(|x| x.to_bits()), l.tl.duration().to_bits(), l.tl.repeat());
            if m != meta0 {
                return Err(format!("op {n}: metadata of timeline #{k} changed: {:?} -> {:?}", meta0, m));
            }
        }
    }
    obs.nontrivial = obs.labels & 0b111 == 0b111;
    Ok(())
}

pub fn c09(run: &mut Run) {
    let cases = run.tier.pick(600_000, 5_000_000);
    run.prop(
        "c09_script",
        "proptest: timeline + script (<=30) of Update(any time order, garbage or random prior target)/Twice/Clone/StartWith on the timeline and its clones; oracle = every result bit-identical to a freshly built twin given only the latest start_with, metadata constant; non-trivial = script has a backwards time step AND a clone used after its source got start_with AND >=2 start_with on one timeline",
        &C09_LABELS,
        c09_strategy(),
        cases,
        c09_judge,
    );
    run.require_label("c09_script", "backwards_step", 0.3);
    run.require_label("c09_script", "clone_used_after_source_mutated", 0.1);
    run.require_label("c09_script", "two_start_with_on_one", 0.1);
    crate::fuzzdrv::campaign(run, "fz_c09", 14_400_000);
}

/// The timeline's own 0 % values: per property the value of its first frame (type default 0 when
/// the property has no keyframe at 0 % or none at all).
pub fn own_start_values(tl: &TlDesc) -> Vals {
    let f = |i: usize| -> f64 { tl.frames(i).first().map(|f| f.value).unwrap_or(0.0) };
    Vals { a: f(0) as f32, b: f(1) as f32, c: f(2) as i32, d: f(3) as u8 }
}

// =============================================================================================
// C10: start_with only affects the first forward pass

#[derive(Clone, Debug, Serialize, Deserialize)]
pub struct C10Case {
    pub tl: TlDesc,
    pub others: Vec<TlDesc>,
    /// earlier start_with calls that the final one must fully replace
    #[serde(default)]
    pub earlier: Vec<Vals>,
    pub v: Vals,
    pub times: Vec<TimeSpec>,
}

pub fn c10_strategy() -> impl Strategy<Value = C10Case> {
    (tl_strategy(), prop::collection::vec(tl_strategy(), 0..=1), prop_oneof![3 => Just(vec![]), 2 => prop::collection::vec(vals_strategy(), 1..=2)], vals_strategy(), prop::collection::vec(timespec_strategy(), 16)).prop_map(|(tl, others, earlier, v, times)| {
        let back = tl.uses_back() || others.iter().any(|o| o.uses_back());
        // now and then the final start value is the timeline's own 0 % value for some properties
        // (after a different earlier one): the substitution must still replace the earlier one
        let mut v = v;
        if !earlier.is_empty() && (v.d % 3 == 0) {
            let own = own_start_values(&tl);
            v.a = own.a;
            v.c = own.c;
            if v.d % 2 == 0 {
                v.b = own.b;
                v.d = own.d;
            }
        }
        C10Case { tl, others, earlier: earlier.into_iter().map(|e| sanitize_vals(e, back)).collect(), v: sanitize_vals(v, back), times }
    })
}

pub const C10_LABELS: [&str; 9] = ["upto_delay", "first_stretch", "first_pass_beyond_first_stretch", "reverse_pass", "later_cycle", "ended", "v_differs_from_0pct", "near_boundary", "after_earlier_start_with"];

pub fn c10_judge(c: &C10Case, obs: &mut Obs) -> Result<(), String> {
    let model = ModelTl::new(&c.tl);
    let plain = c.tl.build();
    let mut sub = c.tl.build();
    let vp = P::from_vals(&c.v);
    for e in &c.earlier {
        // the latest start_with fully replaces earlier ones: the twin comparison below is unchanged
        sub.start_with(&P::from_vals(e));
    }
    obs.label_if(8, !c.earlier.is_empty());
    sub.start_with(&vp);
    let tm = c.tl.timing;
    for ts in &c.times {
        let t = ts.resolve(&c.tl);
        let (mut x, mut y) = (sentinel(9), sentinel(9));
        plain.update(&mut x, t);
        sub.update(&mut y, t);
        let s = t as f64 - tm.delay as f64;
        // no rounding window when the f32 subtraction t - delay is exact and the cycle is a power of
        // two (then the position is exact as well): the boundary instants themselves are judged
        let exact_t = {
            let r = t as f64 - tm.delay as f64;
            r - t as f64 == -(tm.delay as f64) && exact32(r) && (tm.cycle as f64).log2().fract() == 0.0
        };
        let ds = if exact_t { 0.0 } else { mv_model::ulp32(s as f32) as f64 * 2.0 + 1e-7 * tm.cycle as f64 };
        let ph = tm.phase_s(s);
        let ph_lo = tm.phase_s(s - ds);
        let ph_hi = tm.phase_s(s + ds);
        let strict = ph.kind() == ph_lo.kind() && ph.kind() == ph_hi.kind() && ph.first_forward_pass() == ph_lo.first_forward_pass() && ph.first_forward_pass() == ph_hi.first_forward_pass();
        for i in 0..NPROP {
            let fr = &model.frames[i];
            if fr.is_empty() {
                // untouched either way
                if x.bits()[i] != y.bits()[i] {
                    return Err(format!("un-animated property {} differs between twin and substituted timeline at t={t:?}", PROP_NAMES[i]));
                }
                continue;
            }
            let differs = c.v.get(i) != fr[0].value;
            obs.label_if(6, differs);
            if t <= tm.delay {
                if fr.len() > 1 && fr[1].pos == 0.0 {
                    // a second keyframe at 0 % defines the property as well: which one "the 0 %
                    // value" is, is ambiguous (repeated position) - not asserted
                    obs.skipped += 1;
                    continue;
                }
                // exactly v
                if y.get(i) != c.v.get(i) {
                    return Err(format!("prop {} at t={t:?} <= delay {:?}: got {}, expected exactly the substituted start value {}", PROP_NAMES[i], tm.delay, y.get(i), c.v.get(i)));
                }
                obs.label(0);
                obs.judged += 1;
                if differs {
                    obs.nontrivial = true;
                }
                continue;
            }
            if !strict {
                obs.near += 1;
                obs.label(7);
                continue;
            }
            match ph {
                Phase::Active { pos, cycle, reversing } if cycle == 0 && !reversing => {
                    // first forward pass: beyond the property's second frame -> identical to twin
                    let p1 = fr[1.min(fr.len() - 1)].pos;
                    let dp = ds / tm.cycle as f64 * if tm.reverse { 2.0 } else { 1.0 } + 1e-6;
                    if fr.len() > 1 && pos >= p1 + dp {
                        if x.bits()[i] != y.bits()[i] {
                            return Err(format!(
                                "prop {} at t={t:?} (first pass, pos {pos} beyond the second frame at {p1}): substituted timeline gives {} but plain twin gives {}",
                                PROP_NAMES[i], y.get(i), x.get(i)
                            ));
                        }
                        obs.label(2);
                        obs.judged += 1;
                        if differs {
                            obs.nontrivial = true;
                        }
                    } else if pos <= p1 - dp {
                        // inside the first stretch: model value (lerp from v)
                        model.judge(i, t, Some(c.v.get(i)), y.get(i)).map_err(|e| format!("first stretch: {e}"))?;
                        obs.label(1);
                        obs.judged += 1;
                        if differs {
                            obs.nontrivial = true;
                        }
                    } else {
                        obs.near += 1;
                    }
                }
                Phase::NotStarted => {}
                _ => {
                    if x.bits()[i] != y.bits()[i] {
                        return Err(format!("prop {} at t={t:?} in phase {ph:?}: substituted timeline gives {} but plain twin gives {}", PROP_NAMES[i], y.get(i), x.get(i)));
                    }
                    match ph {
                        Phase::Ended { .. } => obs.label(5),
                        Phase::Active { reversing: true, cycle: 0, .. } => obs.label(3),
                        _ => obs.label(4),
                    }
                    obs.judged += 1;
                    if differs {
                        obs.nontrivial = true;
                    }
                }
            }
        }
    }
    // through a MergedTimeline: start_with reaches the component; later components overlay
    if !c.others.is_empty() {
        let mut comps = vec![c.tl.build()];
        comps.extend(c.others.iter().map(|o| o.build()));
        let mut merged = MergedTimeline::of(comps.iter().cloned());
        merged.start_with(&vp);
        for cmp in comps.iter_mut() {
            cmp.start_with(&vp);
        }
        for ts in &c.times {
            let t = ts.resolve(&c.tl);
            let (mut x, mut y) = (sentinel(11), sentinel(11));
            merged.update(&mut x, t);
            for cmp in &comps {
                cmp.update(&mut y, t);
            }
            if x.bits() != y.bits() {
                return Err(format!("merged.start_with(v) differs from start_with(v) on every component at t={t:?}: {:?} vs {:?}", x, y));
            }
        }
    }
    Ok(())
}

pub fn c10(run: &mut Run) {
    let cases = run.tier.pick(900_000, 10_000_000);
    run.prop(
        "c10_twin",
        "proptest: timeline, its un-substituted twin, start value v, 16 TimeSpecs over all phases; oracle: t<=delay -> exactly v; reverse pass/later cycles/ended/first pass beyond the second frame -> bit-identical to twin; inside first stretch -> model lerp from v; also merged.start_with == per-component; non-trivial = judged strictly with v != original 0% value",
        &C10_LABELS,
        c10_strategy(),
        cases,
        c10_judge,
    );
    for l in ["upto_delay", "first_stretch", "first_pass_beyond_first_stretch", "reverse_pass", "later_cycle", "ended"] {
        run.require_label("c10_twin", l, 0.05);
    }
    crate::fuzzdrv::campaign(run, "fz_c10", 14_400_000);
}

// =============================================================================================
// C11: insertion order

#[derive(Clone, Debug, Serialize, Deserialize)]
pub struct C11Case {
    pub tl: TlDesc,
    /// Lehmer code of the insertion permutation (shrinks toward the identity)
    pub lehmer: Vec<u16>,
    pub times: Vec<TimeSpec>,
    pub start: Option<Vals>,
}

pub fn c11_strategy() -> impl Strategy<Value = C11Case> {
    (
        tl_strategy().prop_map(|t| {
            let mut t = t.distinct_positions();
            t.kfs.sort_by(|a, b| a.pos.partial_cmp(&b.pos).unwrap());
            t
        }),
        prop::collection::vec(any::<u16>(), 8),
        prop::collection::vec(timespec_strategy(), 24),
        prop::option::weighted(0.3, vals_strategy()),
    )
        .prop_map(|(tl, lehmer, times, start)| {
            let back = tl.uses_back();
            C11Case { tl, lehmer, times, start: start.map(|v| sanitize_vals(v, back)) }
        })
}

pub fn lehmer_perm(code: &[u16], n: usize) -> Vec<usize> {
    let mut pool: Vec<usize> = (0..n).collect();
    let mut out = vec![];
    for i in 0..n {
        let k = mv_engine::pick_idx(code.get(i).copied().unwrap_or(0), pool.len());
        out.push(pool.remove(k));
    }
    out
}

pub const C11_LABELS: [&str; 4] = ["non_identity", "ge_4_keyframes", "reversal", "with_start_value"];

pub fn c11_judge(c: &C11Case, obs: &mut Obs) -> Result<(), String> {
    let n = c.tl.kfs.len();
    let perm = lehmer_perm(&c.lehmer, n);
    let identity = perm.iter().enumerate().all(|(i, p)| i == *p);
    let mut permuted = c.tl.clone();
    permuted.kfs = perm.iter().map(|&i| c.tl.kfs[i].clone()).collect();
    obs.label_if(0, !identity);
    obs.label_if(1, n >= 4);
    obs.label_if(2, n >= 2 && perm.iter().enumerate().all(|(i, p)| *p == n - 1 - i));
    obs.label_if(3, c.start.is_some());
    obs.nontrivial = !identity && n >= 4;
    let mut asc = c.tl.build();
    let mut per = permuted.build();
    if let Some(v) = &c.start {
        asc.start_with(&P::from_vals(v));
        per.start_with(&P::from_vals(v));
    }
    let meta = |t: &PTimeline| (t.delay().to_bits(), t.cycle_duration().map(|x| x.to_bits()), t.duration().to_bits(), t.repeat());
    if meta(&asc) != meta(&per) {
        return Err(format!("metadata differs between ascending and permuted ({perm:?}) insertion: {:?} vs {:?}", meta(&asc), meta(&per)));
    }
    // 24 generated times + 40 evenly spread over the first two cycles
    let mut times: Vec<f32> = c.times.iter().map(|ts| ts.resolve(&c.tl)).collect();
    for q in 0..40 {
        times.push(c.tl.timing.delay + c.tl.timing.cycle * (q as f32 / 20.0));
    }
    for t in times {
        let (mut x, mut y) = (sentinel(13), sentinel(13));
        let rx = std::panic::catch_unwind(std::panic::AssertUnwindSafe(|| asc.update(&mut x, t)));
        let ry = std::panic::catch_unwind(std::panic::AssertUnwindSafe(|| per.update(&mut y, t)));
        match (rx, ry) {
            (Ok(()), Ok(())) => {}
            (Ok(()), Err(p)) => return Err(format!("insertion order {perm:?}: update at t={t:?} panics ({}) while the ascending build gives {:?}", mv_engine::panic_msg(&p), x)),
            (Err(_), _) => return Err(format!("ascending build panics at t={t:?}")),
        }
        if x.bits() != y.bits() {
            return Err(format!("insertion order {perm:?} changes the result at t={t:?}: ascending {:?}, permuted {:?}", x, y));
        }
        obs.judged += 1;
    }
    Ok(())
}

pub fn c11(run: &mut Run) {
    let cases = run.tier.pick(800_000, 10_000_000);
    run.prop(
        "c11_permutation",
        "proptest: keyframe set with distinct positions (0-8) x insertion permutation (Lehmer code) x 64 times; oracle = permuted build bit-identical to ascending build (values + delay/cycle/duration/repeat); non-trivial = permutation != identity and >= 4 keyframes",
        &C11_LABELS,
        c11_strategy(),
        cases,
        c11_judge,
    );
    run.require_label("c11_permutation", "non_identity", 0.5);
    run.require_label("c11_permutation", "ge_4_keyframes", 0.3);
    crate::fuzzdrv::campaign(run, "fz_c11", 14_400_000);
}

// =============================================================================================
// C12: merged timeline

#[derive(Clone, Debug, Serialize, Deserialize)]
pub struct C12Case {
    pub tls: Vec<TlDesc>,
    /// property masks: component k keeps only properties in masks[k] (to get disjoint sets)
    pub masks: Vec<u8>,
    pub disjoint: bool,
    pub start: Option<Vals>,
    pub times: Vec<TimeSpec>,
    pub perm: Vec<u16>,
}

fn boundary_repeat_strategy() -> impl Strategy<Value = Rep> {
    prop_oneof![
        3 => Just(Rep::None),
        4 => prop::sample::select(vec![0u32, 1, 2, 3, 7]).prop_map(Rep::Times),
        2 => prop::sample::select(vec![u32::MAX - 1, u32::MAX, 1 << 24, (1 << 24) + 1, (1 << 25) + 2, (1 << 25) + 3]).prop_map(Rep::Times),
        3 => Just(Rep::Infinite),
    ]
}

pub fn c12_strategy() -> impl Strategy<Value = C12Case> {
    let timing = (cycle_strategy(), delay_strategy(), boundary_repeat_strategy(), any::<bool>()).prop_map(|(cycle, delay, repeat, reverse)| Timing { cycle, delay, repeat, reverse });
    (
        prop::collection::vec(tl_strategy_with(timing, 5), 0..=4),
        prop::collection::vec(1u8..16, 4),
        any::<bool>(),
        prop::option::weighted(0.3, vals_strategy()),
        prop::collection::vec(timespec_strategy(), 10),
        prop::collection::vec(any::<u16>(), 4),
        // occasionally force a common cycle duration so that cycle_duration() = Some is exercised
        prop::option::weighted(0.3, cycle_strategy()),
    )
        .prop_map(|(mut tls, mut masks, disjoint, start, times, perm, common)| {
            if let Some(c) = common {
                for t in &mut tls {
                    t.timing.cycle = c;
                }
            }
            // now and then two components get almost (but not exactly) the same timing: totals that
            // differ by a few ulps or by a fraction of a millisecond
            if tls.len() >= 2 && perm[0] % 5 == 0 {
                let base = tls[0].timing;
                let k = (perm[1] % 7) as i32 - 3;
                let mut t = base;
                match perm[2] % 3 {
                    0 => t.cycle = mv_model::step32(base.cycle, k * 50),
                    1 => t.delay = if base.delay == 0.0 { 0.0003 * (k.abs() + 1) as f32 } else { mv_model::step32(base.delay, k * 50) },
                    _ => t.cycle = base.cycle + 0.0004 * k as f32,
                }
                if t.cycle > 0.0 {
                    let last = tls.len() - 1;
                    tls[last].timing = t;
                }
            }
            // rarely a component whose cycle is so long that cycle x (repeats+1) leaves the f32 range: its
            // own duration() then reads infinite although its repeat count is finite - the merged
            // repeat() must still be the largest component repeat
            if !tls.is_empty() && perm[3] % 16 == 0 {
                let i = perm[2] as usize % tls.len();
                tls[i].timing.cycle = [2.0e38f32, 3.0e38, 1.0e30, 1.0e35][(perm[1] % 4) as usize];
                tls[i].timing.repeat = [Rep::Times(1), Rep::Times(3), Rep::Times(u32::MAX), Rep::None][(perm[0] % 4) as usize];
            }
            if disjoint {
                // make the property sets pairwise disjoint
                let mut used = 0u8;
                for m in masks.iter_mut() {
                    *m &= !used;
                    used |= *m;
                }
                for (t, m) in tls.iter_mut().zip(masks.iter()) {
                    for k in &mut t.kfs {
                        if m & 1 == 0 {
                            k.a = None;
                        }
                        if m & 2 == 0 {
                            k.b = None;
                        }
                        if m & 4 == 0 {
                            k.c = None;
                        }
                        if m & 8 == 0 {
                            k.d = None;
                        }
                    }
                }
            }
            let back = tls.iter().any(|t| t.uses_back());
            C12Case { tls, masks, disjoint, start: start.map(|v| sanitize_vals(v, back)), times, perm }
        })
}

pub const C12_LABELS: [&str; 9] = ["empty_list", "single", "ge_2_components", "shared_property_different_values", "disjoint_reordered", "with_start_value", "infinite_component", "cycle_durations_agree", "boundary_repeat"];

pub fn c12_judge(c: &C12Case, obs: &mut Obs) -> Result<(), String> {
    let comps: Vec<PTimeline> = c.tls.iter().map(|t| t.build()).collect();
    let n = comps.len();
    obs.label_if(0, n == 0);
    obs.label_if(1, n == 1);
    obs.label_if(2, n >= 2);
    obs.label_if(5, c.start.is_some());
    let mut merged = MergedTimeline::of(comps.iter().cloned());
    // a copy taken before start_with stays alive next to the original (templates are cloned into
    // animators): start_with on the original must still reach all of ITS components
    let _copy_kept_alive = if c.perm[1] % 2 == 0 { Some(merged.clone()) } else { None };
    let mut seq: Vec<PTimeline> = comps.clone();
    if let Some(v) = &c.start {
        let vp = P::from_vals(v);
        merged.start_with(&vp);
        for s in seq.iter_mut() {
            s.start_with(&vp);
        }
    }
    // --- aggregate metadata against the model
    let timings: Vec<Timing> = c.tls.iter().map(|t| t.timing).collect();
    let want_delay = timings.iter().map(|t| t.delay).fold(None, |m: Option<f32>, d| Some(m.map_or(d, |m| m.min(d)))).unwrap_or(0.0);
    if merged.delay().to_bits() != want_delay.to_bits() && !(merged.delay() == 0.0 && want_delay == 0.0) {
        return Err(format!("merged.delay() = {:?}, smallest component delay is {:?} (components {:?})", merged.delay(), want_delay, timings));
    }
    let any_inf = timings.iter().any(|t| t.repeat == Rep::Infinite);
    obs.label_if(6, any_inf);
    let comp_durs: Vec<f32> = comps.iter().map(|t| t.duration()).collect();
    let want_dur = comp_durs.iter().cloned().fold(None, |m: Option<f32>, d| Some(m.map_or(d, |m| m.max(d)))).unwrap_or(0.0);
    if any_inf && merged.duration() != f32::INFINITY {
        return Err(format!("merged.duration() = {:?} although a component repeats infinitely", merged.duration()));
    }
    if merged.duration().to_bits() != want_dur.to_bits() {
        return Err(format!("merged.duration() = {:?}, largest component duration is {:?} ({:?})", merged.duration(), want_dur, comp_durs));
    }
    let want_rank = timings.iter().map(|t| t.repeat.rank()).max().unwrap_or(0);
    let got_rep = from_repeat(merged.repeat());
    if got_rep.rank() != want_rank {
        return Err(format!("merged.repeat() = {:?} but the largest component repeat is {:?}", got_rep, timings.iter().map(|t| t.repeat).max_by_key(|r| r.rank())));
    }
    if n == 0 && got_rep != Rep::None {
        return Err(format!("empty merged timeline reports repeat {:?}", got_rep));
    }
    obs.label_if(8, timings.iter().any(|t| matches!(t.repeat, Rep::Times(x) if x >= 1 << 24)));
    let all_same_cycle = n > 0 && timings.iter().all(|t| t.cycle.to_bits() == timings[0].cycle.to_bits());
    obs.label_if(7, all_same_cycle && n >= 2);
    let want_cycle = if all_same_cycle { Some(timings[0].cycle) } else { None };
    if merged.cycle_duration().map(|x| x.to_bits()) != want_cycle.map(|x| x.to_bits()) {
        return Err(format!("merged.cycle_duration() = {:?}, expected {:?} (component cycles {:?})", merged.cycle_duration(), want_cycle, timings.iter().map(|t| t.cycle).collect::<Vec<_>>()));
    }
    // --- nesting: a merged timeline of merged timelines behaves like the flat one
    if n >= 2 {
        let cut = 1 + (c.perm[3] as usize % (n - 1));
        let mk = |range: std::ops::Range<usize>| {
            let mut m = MergedTimeline::of(comps[range].iter().cloned());
            if let Some(v) = &c.start {
                m.start_with(&P::from_vals(v));
            }
            m
        };
        let nested = MergedTimeline::of([mk(0..cut), mk(cut..n)]);
        if nested.delay().to_bits() != merged.delay().to_bits() || nested.duration().to_bits() != merged.duration().to_bits() || nested.repeat() != merged.repeat() {
            return Err(format!("nesting [0..{cut}] + [{cut}..{n}] changes the aggregate metadata: delay {:?}/{:?}, duration {:?}/{:?}, repeat {:?}/{:?}", nested.delay(), merged.delay(), nested.duration(), merged.duration(), nested.repeat(), merged.repeat()));
        }
        if nested.cycle_duration().map(|x| x.to_bits()) != merged.cycle_duration().map(|x| x.to_bits()) {
            return Err(format!("nesting [0..{cut}] + [{cut}..{n}] changes cycle_duration(): {:?} vs flat {:?} (component cycles {:?})", nested.cycle_duration(), merged.cycle_duration(), c.tls.iter().map(|t| t.timing.cycle).collect::<Vec<_>>()));
        }
        // the other grouping direction: [[a], [b, c, ...]] vs [[a, b, ...], [z]] must agree as well
        let nested2 = MergedTimeline::of([mk(0..n - 1), mk(n - 1..n)]);
        if nested2.cycle_duration().map(|x| x.to_bits()) != merged.cycle_duration().map(|x| x.to_bits()) {
            return Err(format!("nesting [0..{}] + [last] changes cycle_duration(): {:?} vs flat {:?}", n - 1, nested2.cycle_duration(), merged.cycle_duration()));
        }
        for ts in c.times.iter().take(4) {
            let t = ts.resolve(&c.tls[0]);
            let (mut x, mut y) = (sentinel(19), sentinel(19));
            nested.update(&mut x, t);
            merged.update(&mut y, t);
            if x.bits() != y.bits() {
                return Err(format!("nested merged timeline differs from the flat one at t={t:?}: {:?} vs {:?}", x, y));
            }
        }
    }
    // --- wrapping a single timeline changes nothing about it
    if n == 1 {
        let w: MergedTimeline<PTimeline> = MergedTimeline::from(comps[0].clone());
        let w2 = mina::TimelineOrBuilder::build(comps[0].clone());
        for m in [&w, &w2] {
            if m.delay().to_bits() != comps[0].delay().to_bits() || m.duration().to_bits() != comps[0].duration().to_bits() || m.repeat() != comps[0].repeat() || m.cycle_duration() != comps[0].cycle_duration() {
                return Err("wrapping a single timeline changed its metadata".into());
            }
        }
        // ... nor about its values, whichever public route wraps it - also when the timeline already
        // carries a substituted start value
        let already = seq[0].clone();
        let routes: [(&str, MergedTimeline<PTimeline>); 3] = [("MergedTimeline::from", MergedTimeline::from(already.clone())), ("TimelineOrBuilder::build", mina::TimelineOrBuilder::build(already.clone())), ("MergedTimeline::of", MergedTimeline::of([already.clone()]))];
        for ts in c.times.iter() {
            let t = ts.resolve(&c.tls[0]);
            let mut want = sentinel(23);
            already.update(&mut want, t);
            for (name, m) in &routes {
                let mut got = sentinel(23);
                m.update(&mut got, t);
                if got.bits() != want.bits() {
                    return Err(format!("{name}(timeline) evaluated at t={t:?} gives {:?}, the timeline itself {:?} (start value substituted before wrapping: {})", got, want, c.start.is_some()));
                }
            }
        }
    }
    // --- evaluation: merged == sequential application
    let reordered: Option<Vec<usize>> = if c.disjoint && n >= 2 { Some(lehmer_perm(&c.perm, n)) } else { None };
    let base = c.tls.first();
    for (k, ts) in c.times.iter().enumerate() {
        let t = match base {
            Some(b) => ts.resolve(b),
            None => match ts {
                TimeSpec::Abs(x) => *x,
                _ => k as f32 * 0.37,
            },
        };
        let (mut x, mut y) = (sentinel(17), sentinel(17));
        merged.update(&mut x, t);
        let mut intermediate: Vec<[u64; 6]> = vec![];
        for s in &seq {
            s.update(&mut y, t);
            intermediate.push(y.bits());
        }
        if x.bits() != y.bits() {
            return Err(format!("merged.update at t={t:?} gives {:?}, applying the {n} components in order gives {:?}", x, y));
        }
        // non-trivial: two components write the same property with different values at t
        for w in intermediate.windows(2) {
            for i in 0..NPROP {
                let animated_by_later = true;
                if animated_by_later && w[0][i] != w[1][i] && w[0][i] != sentinel(17).bits()[i] {
                    obs.nontrivial = true;
                    obs.label(3);
                }
            }
        }
        if let Some(p) = &reordered {
            let mut z = sentinel(17);
            for &i in p {
                seq[i].update(&mut z, t);
            }
            if z.bits() != x.bits() {
                return Err(format!("components with disjoint property sets applied in order {p:?} at t={t:?} give {:?}, merged gives {:?}", z, x));
            }
            let m2 = {
                let mut m = MergedTimeline::of(p.iter().map(|&i| comps[i].clone()));
                if let Some(v) = &c.start {
                    m.start_with(&P::from_vals(v));
                }
                m
            };
            let mut z2 = sentinel(17);
            m2.update(&mut z2, t);
            if z2.bits() != x.bits() {
                return Err(format!("merged timeline of disjoint components in order {p:?} differs at t={t:?}: {:?} vs {:?}", z2, x));
            }
            obs.label(4);
        }
        if n == 0 && x.bits() != sentinel(17).bits() {
            return Err(format!("empty merged timeline modified the target at t={t:?}"));
        }
        obs.judged += 1;
    }
    if n == 0 {
        if merged.delay() != 0.0 || merged.duration() != 0.0 || merged.cycle_duration().is_some() {
            return Err(format!("empty merged timeline metadata: delay {:?} duration {:?} cycle {:?}", merged.delay(), merged.duration(), merged.cycle_duration()));
        }
    }
    Ok(())
}

pub fn c12(run: &mut Run) {
    let cases = run.tier.pick(800_000, 5_000_000);
    run.prop(
        "c12_overlay",
        "proptest: 0-4 component timelines (overlapping or pairwise-disjoint property sets, heterogeneous timing incl. Times(u32::MAX) and Infinite) x 10 times x optional start value; oracle = merged.update bit-identical to sequential application, disjoint sets order-independent, delay=min, duration=max/inf, repeat rank=max (None==Times(0)<Times(n)<Infinite), cycle Some iff all agree, single wrap transparent, empty list no-op; non-trivial = >=2 components writing the same property with different values at t",
        &C12_LABELS,
        c12_strategy(),
        cases,
        c12_judge,
    );
    for l in ["empty_list", "single", "ge_2_components", "shared_property_different_values", "disjoint_reordered", "infinite_component", "cycle_durations_agree", "boundary_repeat"] {
        run.require_label("c12_overlay", l, 0.02);
    }
    crate::fuzzdrv::campaign(run, "fz_c12", 14_400_000);
}

//! Thorough-tier add-on: coverage-guided libFuzzer campaigns (cargo-fuzz crate in /verif/fuzz).
//! The targets decode bytes into the same abstract cases as the generated tier and run the same
//! judge inside the target; a failure is saved as a normal replay JSON by the target itself.

use mv_engine::{Run, Tier};
use serde_json::json;
use std::process::Command;

pub fn campaign(run: &mut Run, target: &str, total_runs: u64) {
    if run.tier != Tier::Thorough || run.is_replay() {
        return;
    }
    let t0 = std::time::Instant::now();
    let root = mv_engine::verif_root();
    let fuzz_dir = root.join("fuzz");
    let build_with = |extra: &[&str]| {
        Command::new("cargo").args(["+nightly", "fuzz", "build", "--fuzz-dir"]).arg(&fuzz_dir).args(extra).arg(target).env("CARGO_NET_OFFLINE", "true").current_dir(&fuzz_dir).output()
    };
    // same fallback as ./run: without the verif-hooks feature when only the hook fails to compile
    let build = match build_with(if cfg!(feature = "hooks") { &[] } else { &["--no-default-features"] }) {
        Ok(o) if !o.status.success() && cfg!(feature = "hooks") => build_with(&["--no-default-features"]),
        other => other,
    };
    match build {
        Ok(o) if o.status.success() => {}
        Ok(o) => {
            run.health_fail(format!("cargo fuzz build {target} failed: {}", String::from_utf8_lossy(&o.stderr).chars().rev().take(800).collect::<String>().chars().rev().collect::<String>()));
            return;
        }
        Err(e) => {
            run.health_fail(format!("cannot run cargo fuzz: {e}"));
            return;
        }
    }
    let bin = fuzz_dir.join("target/x86_64-unknown-linux-gnu/release").join(target);
    let jobs = run.threads.clamp(1, 16) as u64;
    let total_runs = match std::env::var("VERIF_SCALE").ok().and_then(|s| s.parse::<u64>().ok()) {
        Some(p) => total_runs * p / 100,
        None => total_runs,
    };
    let per = (total_runs / jobs).max(1000);
    let work = root.join("work").join(format!("fuzz-{target}-{}", std::process::id()));
    let seeds = fuzz_dir.join("seeds").join(target);
    let mut children = vec![];
    for j in 0..jobs {
        let corpus = work.join(format!("corpus-{j}"));
        let _ = std::fs::create_dir_all(&corpus);
        let mut cmd = Command::new(&bin);
        cmd.arg(&corpus);
        if seeds.is_dir() {
            cmd.arg(&seeds);
        }
        cmd.args([format!("-runs={per}"), format!("-seed={}", run.seed.wrapping_mul(1000) + j + 1), "-max_len=1024".into(), "-len_control=0".into(), "-print_final_stats=1".into(), format!("-artifact_prefix={}/", work.display())])
            .env("VERIF_ROOT", &root)
            .stdout(std::process::Stdio::null());
        // stderr goes to a file: with pipes, the jobs not currently being waited for block as soon as
        // their pipe buffer is full and the campaign degenerates into a sequential one
        let log = work.join(format!("job-{j}.log"));
        match std::fs::File::create(&log) {
            Ok(f) => {
                cmd.stderr(f);
            }
            Err(_) => {
                cmd.stderr(std::process::Stdio::null());
            }
        }
        match cmd.spawn() {
            Ok(c) => children.push((c, log)),
            Err(e) => run.health_fail(format!("cannot start {}: {e}", bin.display())),
        }
    }
    let mut executed = 0u64;
    let mut corpus_units = 0u64;
    let mut cov = 0u64;
    let mut found: Vec<String> = vec![];
    for (mut c, log) in children {
        let Ok(status) = c.wait() else { continue };
        let text = std::fs::read_to_string(&log).unwrap_or_default();
        for l in text.lines() {
            if let Some(v) = l.strip_prefix("stat::number_of_executed_units:") {
                executed += v.trim().parse::<u64>().unwrap_or(0);
            }
            if l.contains(" cov: ") {
                let f = |key: &str| l.split(key).nth(1).and_then(|r| r.trim().split(|c: char| !c.is_ascii_digit()).next().map(|s| s.to_string())).and_then(|s| s.parse::<u64>().ok());
                if let Some(c) = f(" cov: ") {
                    cov = cov.max(c);
                }
            }
            if let Some(rest) = l.strip_prefix("FUZZ-VIOLATION ") {
                found.push(rest.to_string());
            }
        }
        if !status.success() && !text.contains("FUZZ-VIOLATION") && !text.contains("DONE") {
            run.health_fail(format!("fuzz target {target} ended abnormally without a judged violation: {}", text.lines().rev().take(5).collect::<Vec<_>>().join(" | ")));
        }
    }
    for j in 0..jobs {
        if let Ok(rd) = std::fs::read_dir(work.join(format!("corpus-{j}"))) {
            corpus_units += rd.count() as u64;
        }
    }
    found.sort();
    found.dedup();
    for f in &found {
        // "property=<id> replay=<path>"
        println!("VIOLATION {f}");
        run.note_external_violation(target, f);
    }
    run.external(
        &format!("fuzz_{target}"),
        "libFuzzer campaign (coverage-guided)",
        "bytes decoded by hand (arbitrary::Unstructured) into the same case type and value pools as the generated tier; the check's judge runs inside the target (debug assertions and overflow checks ON, AddressSanitizer); -runs and -seed fixed, fresh corpus plus committed seed inputs; distinct_nontrivial = inputs kept in the corpus, i.e. distinct cases that each reached new coverage",
        executed,
        corpus_units,
        vec![json!({"target": target, "edge_coverage": cov, "jobs": jobs, "runs_per_job": per})],
        t0.elapsed().as_secs_f64(),
    );
    let _ = std::fs::remove_dir_all(&work);
}

//! `core <Cnn> quick|thorough` / `core replay <Cnn> <file>`: checks for C01-C14 and C20.

mod c_animator;
mod c_easing;
mod c_lerp;
mod c_robust;
mod c_timeline;
mod c_timescale;

use mv_engine::Run;

fn main() {
    let args: Vec<String> = std::env::args().skip(1).collect();
    if args.first().map(|s| s.as_str()) == Some("c20-child") {
        mv_engine::quiet_panics();
        std::process::exit(c_robust::c20_child(&args));
    }
    let Some(mut run) = Run::from_args(&args) else {
        eprintln!("usage: core <C01..C14|C20> [quick|thorough] | core replay <Cnn> <file>");
        std::process::exit(2);
    };
    mv_engine::quiet_panics();
    match run.id.as_str() {
        "C01" => c_timeline::c01(&mut run),
        "C02" => c_timeline::c02(&mut run),
        "C03" => c_timescale::c03(&mut run),
        "C04" => c_animator::c04(&mut run),
        "C05" => c_animator::c05(&mut run),
        "C06" => c_animator::c06(&mut run),
        "C07" => c_animator::c07(&mut run),
        "C08" => c_timeline::c08(&mut run),
        "C09" => c_timeline::c09(&mut run),
        "C10" => c_timeline::c10(&mut run),
        "C11" => c_timeline::c11(&mut run),
        "C12" => c_timeline::c12(&mut run),
        "C13" => c_easing::c13(&mut run),
        "C14" => c_lerp::c14(&mut run),
        "C20" => c_robust::c20(&mut run),
        other => {
            eprintln!("unknown property {other}");
            std::process::exit(2);
        }
    }
    std::process::exit(run.finish());
}

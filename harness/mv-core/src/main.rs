//! `core <Cnn> quick|thorough` / `core replay <Cnn> <file>`: checks for C01-C14 and C20.


use mv_engine::Run;

fn main() {
    let args: Vec<String> = std::env::args().skip(1).collect();
    if args.first().map(|s| s.as_str()) == Some("c20-child") {
        mv_engine::quiet_panics();
        std::process::exit(mv_core::c_robust::c20_child(&args));
    }
    if args.first().map(|s| s.as_str()) == Some("c14-child") {
        mv_engine::quiet_panics();
        std::process::exit(mv_core::c_lerp::c14_child(&args));
    }
    let Some(mut run) = Run::from_args(&args) else {
        eprintln!("usage: core <C01..C14|C20> [quick|thorough] | core replay <Cnn> <file>");
        std::process::exit(2);
    };
    mv_engine::quiet_panics();
    match run.id.as_str() {
        "C01" => mv_core::c_timeline::c01(&mut run),
        "C02" => mv_core::c_timeline::c02(&mut run),
        "C03" => mv_core::c_timescale::c03(&mut run),
        "C04" => mv_core::c_animator::c04(&mut run),
        "C05" => mv_core::c_animator::c05(&mut run),
        "C06" => mv_core::c_animator::c06(&mut run),
        "C07" => mv_core::c_animator::c07(&mut run),
        "C08" => mv_core::c_timeline::c08(&mut run),
        "C09" => mv_core::c_timeline::c09(&mut run),
        "C10" => mv_core::c_timeline::c10(&mut run),
        "C11" => mv_core::c_timeline::c11(&mut run),
        "C12" => mv_core::c_timeline::c12(&mut run),
        "C13" => mv_core::c_easing::c13(&mut run),
        "C14" => mv_core::c_lerp::c14(&mut run),
        "C20" => mv_core::c_robust::c20(&mut run),
        other => {
            eprintln!("unknown property {other}");
            std::process::exit(2);
        }
    }
    std::process::exit(run.finish());
}

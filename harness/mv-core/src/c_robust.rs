//! C20: no panic, no NaN/inf, debug == release.
//!
//! The release binary is the driver. It (1) runs the generated no-panic/finite check in-process
//! (release semantics: overflow wraps silently), (2) spawns the `dbg` build of this same program
//! (debug assertions + overflow checks on) to run the same generated check there, and (3) generates a
//! deterministic list of cases, lets both builds compute a digest of every observable output per
//! case and compares the digests line by line.

use mv_core::c_animator::*;
use mv_core::desc::*;
use mina::prelude::*;
use mv_engine::{Obs, Run, Tier};
use mv_model::{step32, Rep, Timing};
use proptest::prelude::*;
use proptest::strategy::ValueTree;
use proptest::test_runner::{Config, RngAlgorithm, TestRng, TestRunner};
use serde::{Deserialize, Serialize};
use serde_json::json;
use std::io::{BufRead, Write};

#[derive(Clone, Copy, Debug, PartialEq, Serialize, Deserialize)]
pub enum XTime {
    Zero,
    MinPositive,
    Tiny,
    /// boundary: which (0 delay, 1 end of cycle k, 2 middle of cycle k, 3 total), k, ulps
    Boundary { which: u8, k: u32, ulps: i8 },
    /// 2^24 cycles after the delay
    ManyCycles,
    E19,
    Max,
    Abs(f32),
    /// exactly 2^64 seconds: the first f32 that no longer fits a `Duration`
    TwoPow64,
}

#[derive(Clone, Debug, Serialize, Deserialize)]
pub struct C20Case {
    pub tl: TlDesc,
    pub start: Option<Vals>,
    pub times: Vec<XTime>,
    pub advances: Vec<XTime>,
    pub second_state_animated: bool,
}

fn xtime_strategy() -> impl Strategy<Value = XTime> {
    prop_oneof![
        1 => Just(XTime::Zero),
        1 => Just(XTime::MinPositive),
        1 => Just(XTime::Tiny),
        6 => (0u8..4, prop_oneof![3 => 0u32..4, 1 => prop::sample::select(vec![1u32 << 24, u32::MAX - 1, u32::MAX])], -2i8..=2).prop_map(|(which, k, ulps)| XTime::Boundary { which, k, ulps }),
        1 => Just(XTime::ManyCycles),
        1 => Just(XTime::E19),
        1 => Just(XTime::TwoPow64),
        1 => Just(XTime::Max),
        3 => prop_oneof![0.0f32..100.0, log_uniform(-30.0, 38.0)].prop_map(XTime::Abs),
    ]
}

impl XTime {
    fn resolve(&self, tm: &Timing) -> f32 {
        let c = tm.cycle as f64;
        let d = tm.delay as f64;
        let v = match *self {
            XTime::Zero => 0.0,
            XTime::MinPositive => f32::MIN_POSITIVE as f64,
            XTime::Tiny => 1.0e-9,
            XTime::Boundary { which, k, ulps } => {
                let kk = match tm.repeat.cycles() {
                    Some(n) => (k as u64).min(n - 1) as f64,
                    None => k as f64,
                };
                let base = match which % 4 {
                    0 => d,
                    1 => d + c * (kk + 1.0),
                    2 => d + c * (kk + 0.5),
                    _ => {
                        let t = tm.total();
                        if t.is_finite() { t } else { d + c * (kk + 1.0) }
                    }
                };
                let f = base as f32;
                let f = if f.is_finite() { f } else { f32::MAX };
                return step32(f, ulps as i32).max(0.0);
            }
            XTime::ManyCycles => d + c * 16_777_216.0,
            XTime::E19 => 1.0e19,
            XTime::TwoPow64 => 18446744073709551616.0,
            XTime::Max => f32::MAX as f64,
            XTime::Abs(x) => x as f64,
        };
        let f = v as f32;
        if f.is_finite() { f.max(0.0) } else { f32::MAX }
    }
}

fn extreme_timing_strategy() -> impl Strategy<Value = Timing> {
    let cycle = prop_oneof![
        2 => prop::sample::select(vec![f32::MIN_POSITIVE, 1.0e-30, 1.0e-10, 1.0e-3, 1.0, 1.0e10, 1.0e30, 2.0e38, 3.0e38, f32::from_bits(1), f32::from_bits(2), f32::from_bits(3), 1.0e-42]),
        2 => log_uniform(-37.9, 30.0),
        2 => cycle_strategy(),
    ];
    let delay = prop_oneof![
        3 => Just(0.0f32),
        2 => prop::sample::select(vec![1.0e30f32, -1.0e30, 1.0e-30, -1.0e-30, 1.0, -1.0]),
        2 => log_uniform(-30.0, 30.0),
        1 => log_uniform(-30.0, 30.0).prop_map(|v| -v),
        2 => delay_strategy(),
    ];
    let rep = prop_oneof![
        2 => Just(Rep::None),
        3 => prop::sample::select(vec![0u32, 1, 2, 7]).prop_map(Rep::Times),
        4 => prop::sample::select(vec![(1u32 << 24) - 1, 1 << 24, (1 << 24) + 1, u32::MAX - 1, u32::MAX]).prop_map(Rep::Times),
        2 => Just(Rep::Infinite),
    ];
    (cycle, delay, rep, any::<bool>()).prop_map(|(cycle, delay, repeat, reverse)| Timing { cycle, delay, repeat, reverse })
}

fn extreme_val() -> impl Strategy<Value = f32> {
    prop_oneof![
        3 => f32_val_strategy(),
        2 => prop::sample::select(vec![1.2676506e30f32, -1.2676506e30, 1.0e-30, -1.0e-30, 0.0]),
        // finite values whose difference is not finite in f32
        1 => prop::sample::select(vec![3.0e38f32, -3.0e38, f32::MAX, f32::MIN]),
        1 => log_uniform(-30.0, 30.0),
    ]
}

fn extreme_pos() -> impl Strategy<Value = f32> {
    prop_oneof![
        3 => pos_strategy(),
        2 => prop::sample::select(vec![0.0f32, 1.0, f32::MIN_POSITIVE, 1.0e-45, 1.0 - f32::EPSILON / 2.0, f32::EPSILON]),
    ]
}

pub fn c20_strategy() -> impl Strategy<Value = C20Case> {
    let kf = (extreme_pos(), prop::option::weighted(0.6, extreme_val()), prop::option::weighted(0.4, extreme_val()), prop::option::weighted(0.5, i32_val_strategy()), prop::option::weighted(0.5, any::<u8>()), prop::option::weighted(0.4, ez_strategy()))
        .prop_map(|(pos, a, b, c, d, ez)| KfDesc { pos, a, b, c, d, ez });
    (
        extreme_timing_strategy(),
        ez_strategy(),
        prop::collection::vec(kf, 0..=6),
        prop::option::weighted(0.3, vals_strategy()),
        prop::collection::vec(xtime_strategy(), 10),
        prop::collection::vec(xtime_strategy(), 0..=6),
        any::<bool>(),
        0u8..8,
    )
        .prop_map(|(timing, default_ez, kfs, start, times, advances, second_state_animated, order)| {
            let mut tl = TlDesc { timing, default_ez, kfs, order }.sanitize();
            let back = tl.uses_back();
            if back {
                // an overshooting (Back) easing legitimately takes a value beyond its endpoints: keep the
                // endpoints far enough inside the f32 range that the overshoot itself stays finite
                // (the float analogue of the documented integer range panic)
                for k in tl.kfs.iter_mut() {
                    k.a = k.a.map(|v| v.clamp(-8.0e37, 8.0e37));
                    k.b = k.b.map(|v| v.clamp(-8.0e37, 8.0e37));
                }
            }
            C20Case { tl, start: start.map(|v| sanitize_vals(v, back)), times, advances, second_state_animated }
        })
}

/// Domain rule: the *named* derived quantities must be finite f32 values.
fn named_quantities_finite(tm: &Timing, t: f32) -> bool {
    let span = tm.repeat.cycles().map(|n| tm.cycle as f64 * n as f64);
    let total = tm.total();
    let lim = f32::MAX as f64;
    span.map(|s| s < lim).unwrap_or(true) && (total.is_infinite() && tm.repeat == Rep::Infinite || total.abs() < lim) && (t as f64 - tm.delay as f64).abs() < lim
}

/// Runs one case; returns a digest of every observable output, or the failure.
pub fn c20_run_case(c: &C20Case, obs: &mut Obs) -> Result<u64, String> {
    let mut h: u64 = 0xcbf29ce484222325;
    let mut mix = |v: u64| {
        h ^= v;
        h = h.wrapping_mul(0x100000001b3);
        h ^= h >> 29;
    };
    let tm = c.tl.timing;
    let catch = |what: &str, f: &mut dyn FnMut()| -> Result<(), String> {
        std::panic::catch_unwind(std::panic::AssertUnwindSafe(|| f())).map_err(|p| format!("panic in {what}: {}", mv_engine::panic_msg(&p)))
    };
    // build + metadata
    let mut tl_opt: Option<PTimeline> = None;
    catch("build", &mut || tl_opt = Some(c.tl.build()))?;
    let mut tl = tl_opt.unwrap();
    let mut meta = (0u32, 0u32, 0u32);
    catch("metadata", &mut || meta = (tl.delay().to_bits(), tl.cycle_duration().unwrap_or(-1.0).to_bits(), tl.duration().to_bits()))?;
    mix(meta.0 as u64);
    mix(meta.1 as u64);
    mix(meta.2 as u64);
    let dur = f32::from_bits(meta.2);
    let total_ok = named_quantities_finite(&tm, 0.0);
    if dur.is_nan() || (total_ok && tm.repeat != Rep::Infinite && !dur.is_finite()) {
        return Err(format!("duration() = {dur:?} for the finite configuration {:?}", tm));
    }
    if let Some(v) = &c.start {
        catch("start_with", &mut || tl.start_with(&P::from_vals(v)))?;
    }
    obs.label_if(0, matches!(tm.repeat, Rep::Times(n) if n >= (1 << 24) - 1));
    // evaluation at extreme / boundary times
    for xt in &c.times {
        let t = xt.resolve(&tm);
        let mut target = P { a: 0.5, b: -0.5, c: 1, d: 1, s: 0.0, z: 0 };
        catch(&format!("update at t={t:?} ({xt:?})"), &mut || tl.update(&mut target, t))?;
        let finite_expected = named_quantities_finite(&tm, t);
        if finite_expected && !(target.a.is_finite() && target.b.is_finite()) {
            return Err(format!("update at t={t:?} ({xt:?}) produced a non-finite value from finite inputs: {:?}", target));
        }
        if finite_expected {
            obs.judged += 1;
        } else {
            obs.skipped += 1;
        }
        for b in target.bits() {
            mix(b);
        }
        obs.label_if(1, matches!(xt, XTime::Boundary { .. }));
        obs.label_if(2, matches!(xt, XTime::ManyCycles | XTime::E19 | XTime::Max | XTime::TwoPow64));
    }
    // merged timeline of this timeline and a plain one: aggregate queries (they compare repeats and
    // durations) and evaluation
    {
        let plain = TlDesc { timing: Timing { cycle: 1.0, delay: 0.0, repeat: Rep::Times(3), reverse: false }, default_ez: Ez::Linear, kfs: vec![KfDesc { pos: 1.0, a: None, b: Some(2.0), c: None, d: None, ez: None }], order: 0 };
        let mut merged_opt = None;
        catch("merged build", &mut || merged_opt = Some(MergedTimeline::of([c.tl.build(), plain.build()])))?;
        let merged = merged_opt.unwrap();
        let mut q = (0u32, 0u32, mina::Repeat::None, None);
        catch("merged metadata", &mut || q = (merged.delay().to_bits(), merged.duration().to_bits(), merged.repeat(), merged.cycle_duration().map(|x| x.to_bits())))?;
        mix(q.0 as u64);
        mix(q.1 as u64);
        mix(match q.2 {
            mina::Repeat::None => 1,
            mina::Repeat::Times(n) => 2 + n as u64,
            mina::Repeat::Infinite => u64::MAX,
        });
        mix(q.3.unwrap_or(7) as u64);
        if let Some(xt) = c.times.first() {
            let t = xt.resolve(&tm);
            let mut target = P { a: 0.5, b: -0.5, c: 1, d: 1, s: 0.0, z: 0 };
            catch(&format!("merged update at t={t:?}"), &mut || merged.update(&mut target, t))?;
            for b in target.bits() {
                mix(b);
            }
        }
    }
    // an empty merged timeline: every aggregate is finite, evaluation is a no-op
    {
        let empty: MergedTimeline<PTimeline> = MergedTimeline::of(Vec::<PTimeline>::new());
        let mut q = (0f32, 0f32);
        catch("empty merged metadata", &mut || q = (empty.delay(), empty.duration()))?;
        if !q.0.is_finite() || !q.1.is_finite() {
            return Err(format!("empty merged timeline reports delay {:?} / duration {:?}", q.0, q.1));
        }
        let _ = (empty.repeat(), empty.cycle_duration());
    }
    // animator: build, advance with the same alphabet, query
    let second = TlDesc { timing: Timing { cycle: 1.0, delay: 0.0, repeat: Rep::None, reverse: false }, default_ez: Ez::Linear, kfs: vec![KfDesc { pos: 1.0, a: Some(3.0), b: None, c: None, d: None, ez: None }], order: 0 };
    let desc = AnimDesc {
        states: vec![Some(vec![c.tl.clone()]), if c.second_state_animated { Some(vec![second]) } else { None }, None, None, None],
        initial_state: 0,
        initial_values: c.start.unwrap_or(Vals { a: 1.0, b: 2.0, c: 3, d: 100 }), builder_order: 0 };
    let mut an_opt = None;
    catch("animator build", &mut || an_opt = Some(desc.build()))?;
    let mut an = an_opt.unwrap();
    let mut elapsed = 0.0f64;
    for (n, xt) in c.advances.iter().enumerate() {
        let dt = xt.resolve(&tm);
        catch(&format!("advance({dt:?}) (#{n}, {xt:?})"), &mut || an.advance(dt))?;
        elapsed += dt as f64;
        let mut ended = false;
        catch("is_ended", &mut || ended = an.is_ended())?;
        let v = an.current_values().clone();
        if named_quantities_finite(&tm, elapsed.min(f32::MAX as f64) as f32) && !(v.a.is_finite() && v.b.is_finite()) {
            return Err(format!("animator values non-finite after advance({dt:?}): {:?}", v));
        }
        mix(ended as u64);
        for b in v.bits() {
            mix(b);
        }
        if n == 2 {
            catch("set_state", &mut || an.set_state(&St::S1))?;
            for b in an.current_values().bits() {
                mix(b);
            }
            catch("set_state back", &mut || an.set_state(&St::S0))?;
            for b in an.current_values().bits() {
                mix(b);
            }
        }
        obs.label(3);
        obs.judged += 1;
    }
    // the same advances once more while in a state WITHOUT a timeline (its clock is never read, but
    // it must not blow up either)
    catch("set_state to an un-animated state", &mut || an.set_state(&STATES[2]))?;
    for (n, xt) in c.advances.iter().enumerate() {
        let dt = xt.resolve(&tm);
        catch(&format!("advance({dt:?}) in an un-animated state (#{n}, {xt:?})"), &mut || an.advance(dt))?;
        mix(an.is_ended() as u64);
        for b in an.current_values().bits() {
            mix(b);
        }
    }
    catch("set_state back", &mut || an.set_state(&St::S0))?;
    for b in an.current_values().bits() {
        mix(b);
    }
    obs.nontrivial = obs.labels & 0b111 != 0;
    Ok(h)
}

pub const C20_LABELS: [&str; 4] = ["boundary_repeat_count", "time_within_2ulp_of_boundary", "astronomic_time", "animator_advanced"];

fn gen_cases(seed: u64, n: usize) -> Vec<C20Case> {
    let mut sb = [0u8; 32];
    sb[..8].copy_from_slice(&seed.to_le_bytes());
    sb[8..16].copy_from_slice(b"c20digst");
    let mut runner = TestRunner::new_with_rng(Config { failure_persistence: None, ..Config::default() }, TestRng::from_seed(RngAlgorithm::ChaCha, &sb));
    let strat = c20_strategy();
    (0..n).map(|_| strat.new_tree(&mut runner).unwrap().current()).collect()
}

fn digest_line(c: &C20Case) -> String {
    let mut obs = Obs::default();
    match std::panic::catch_unwind(std::panic::AssertUnwindSafe(|| c20_run_case(c, &mut obs))) {
        Ok(Ok(h)) => format!("{h:016x}"),
        Ok(Err(e)) => format!("ERR {}", e.replace('\n', " ")),
        Err(p) => format!("ERR panic: {}", mv_engine::panic_msg(&p)),
    }
}

/// child mode (dbg build): `core c20-child <tier> <cases-file> <out-file>`
pub fn c20_child(args: &[String]) -> i32 {
    let tier = if args.get(1).map(|s| s.as_str()) == Some("thorough") { "thorough" } else { "quick" };
    let cases_file = &args[2];
    let out_file = &args[3];
    // 1. digests for the shared case list
    let f = std::fs::File::open(cases_file).expect("cases file");
    let cases: Vec<C20Case> = std::io::BufReader::new(f).lines().map(|l| serde_json::from_str(&l.unwrap()).unwrap()).collect();
    let threads = std::thread::available_parallelism().map(|n| n.get()).unwrap_or(8).min(16);
    let chunk = (cases.len() + threads - 1) / threads.max(1);
    let mut lines: Vec<String> = vec![String::new(); cases.len()];
    std::thread::scope(|s| {
        for (cs, ls) in cases.chunks(chunk.max(1)).zip(lines.chunks_mut(chunk.max(1))) {
            s.spawn(move || {
                for (c, l) in cs.iter().zip(ls.iter_mut()) {
                    *l = digest_line(c);
                }
            });
        }
    });
    let mut out = std::fs::File::create(out_file).expect("out file");
    for l in &lines {
        writeln!(out, "{l}").unwrap();
    }
    // 2. the generated no-panic/finite check under debug assertions + overflow checks
    let mut run = Run::from_args(&["C20".to_string(), tier.to_string()]).unwrap();
    let cases_n = run.tier.pick(250_000, 25_000_000);
    run.prop("c20_nopanic_debug", "see parent", &C20_LABELS, c20_strategy(), cases_n, |c: &C20Case, obs: &mut Obs| c20_run_case(c, obs).map(|_| ()));
    // stats for the parent; evidence is written by the parent only
    let stats_path = format!("{out_file}.stats.json");
    let v = run.violation_count();
    let summary = run.sub_summary("c20_nopanic_debug");
    std::fs::write(stats_path, serde_json::to_string(&json!({"violations": v, "summary": summary})).unwrap()).unwrap();
    if v > 0 { 1 } else { 0 }
}

pub fn c20(run: &mut Run) {
    run.assume("domain: cycle > 0, finite delay, positions in [0,1], finite values, finite time >= 0; outputs are required to be finite only when the named derived quantities (t - delay, cycle x (repeats+1), total duration) are finite f32 values; Back easings on the u8 property are kept inside the type (documented Lerp panic)");
    let cases = run.tier.pick(250_000, 25_000_000);
    run.prop(
        "c20_nopanic_release",
        "proptest: extreme-but-valid configurations (cycle MIN_POSITIVE..1e30, delay +-1e30, repeat 0 / 2^24+-1 / u32::MAX-1 / u32::MAX / infinite, positions incl. denormal neighbours of 0 and 1, values +-2^100) x 10 times (every phase boundary +-0..2 ulp, 0, MIN_POSITIVE, 2^24 cycles, 1e19, f32::MAX) + animator advance/is_ended/set_state with the same alphabet; oracle: no panic under catch_unwind, finite outputs; non-trivial = boundary repeat count or time within 2 ulp of a boundary or astronomic time",
        &C20_LABELS,
        c20_strategy(),
        cases,
        |c: &C20Case, obs: &mut Obs| c20_run_case(c, obs).map(|_| ()),
    );
    if run.is_replay() {
        return;
    }
    // ---- differential between build profiles
    let t0 = std::time::Instant::now();
    let n = run.tier.pick(100_000, 2_000_000) as usize;
    let root = mv_engine::verif_root();
    let work = root.join("work");
    let _ = std::fs::create_dir_all(&work);
    let cases_file = work.join(format!("c20-cases-{}.jsonl", std::process::id()));
    let out_file = work.join(format!("c20-dbg-{}.txt", std::process::id()));
    let cases_v = gen_cases(run.seed, n);
    {
        let mut f = std::io::BufWriter::new(std::fs::File::create(&cases_file).unwrap());
        for c in &cases_v {
            writeln!(f, "{}", serde_json::to_string(c).unwrap()).unwrap();
        }
    }
    let dbg_bin = root.join("harness/target/dbg/core");
    if !dbg_bin.exists() {
        run.health_fail(format!("debug-profile binary {} missing (run ./run setup)", dbg_bin.display()));
        return;
    }
    let child = std::process::Command::new(&dbg_bin)
        .arg("c20-child")
        .arg(run.tier.name())
        .arg(&cases_file)
        .arg(&out_file)
        .env("VERIF_SEED", run.seed.to_string())
        .output();
    let child = match child {
        Ok(o) => o,
        Err(e) => {
            run.health_fail(format!("cannot run {}: {e}", dbg_bin.display()));
            return;
        }
    };
    let child_out = String::from_utf8_lossy(&child.stdout).to_string();
    // a violation found by the debug leg: it already wrote the replay file and the VIOLATION line
    for l in child_out.lines() {
        if l.starts_with("VIOLATION ") || l.starts_with("  check=") {
            println!("{l}");
        }
    }
    let code = child.status.code().unwrap_or(2);
    if code == 1 {
        run.note_external_violation("c20_nopanic_debug", "violation found by the debug-profile leg (see VIOLATION line above)");
    } else if code != 0 {
        run.health_fail(format!("debug-profile leg exited with {code}: {}", String::from_utf8_lossy(&child.stderr).chars().take(600).collect::<String>()));
        return;
    }
    if let Ok(st) = std::fs::read_to_string(format!("{}.stats.json", out_file.display())) {
        if let Ok(v) = serde_json::from_str::<serde_json::Value>(&st) {
            let s = &v["summary"];
            run.external(
                "c20_nopanic_debug",
                "proptest (debug profile child process)",
                "the same generated check as c20_nopanic_release, run by the dbg build of this program (debug assertions and overflow checks ON, opt-level 1)",
                s["cases"].as_u64().unwrap_or(0),
                s["distinct_nontrivial"].as_u64().unwrap_or(0),
                s["samples"].as_array().cloned().unwrap_or_default(),
                s["wall_s"].as_f64().unwrap_or(0.0),
            );
        }
    }
    // compare digests
    let dbg_lines: Vec<String> = std::fs::read_to_string(&out_file).unwrap_or_default().lines().map(|s| s.to_string()).collect();
    if dbg_lines.len() != cases_v.len() {
        run.health_fail(format!("debug leg returned {} digests for {} cases", dbg_lines.len(), cases_v.len()));
        return;
    }
    let threads = run.threads.max(1);
    let chunk = (cases_v.len() + threads - 1) / threads;
    let mut rel_lines: Vec<String> = vec![String::new(); cases_v.len()];
    std::thread::scope(|s| {
        for (cs, ls) in cases_v.chunks(chunk.max(1)).zip(rel_lines.chunks_mut(chunk.max(1))) {
            s.spawn(move || {
                for (c, l) in cs.iter().zip(ls.iter_mut()) {
                    *l = digest_line(c);
                }
            });
        }
    });
    let mut nontrivial = std::collections::HashSet::new();
    let mut samples = vec![];
    let mut mismatch: Option<usize> = None;
    for (i, c) in cases_v.iter().enumerate() {
        if rel_lines[i] != dbg_lines[i] && mismatch.is_none() {
            mismatch = Some(i);
        }
        let mut o = Obs::default();
        let _ = std::panic::catch_unwind(std::panic::AssertUnwindSafe(|| c20_run_case(c, &mut o)));
        if o.nontrivial {
            nontrivial.insert(mv_engine::case_key(c));
            if samples.len() < 2 {
                samples.push(json!({"case": c, "digest": rel_lines[i]}));
            }
        }
    }
    if let Some(i) = mismatch {
        run.record_violation(mv_engine::Violation {
            check: "c20_nopanic_release".into(),
            case: serde_json::to_value(&cases_v[i]).unwrap(),
            detail: format!("debug and release builds behave differently on this case: release digest/result `{}` vs debug `{}`", rel_lines[i], dbg_lines[i]),
        });
    }
    run.external(
        "c20_profile_differential",
        "differential (release vs debug build)",
        "deterministically generated cases (proptest strategy, RNG seeded from VERIF_SEED) executed by the release and by the debug build of the same program; digest of every observable output (metadata bits, values after every update/advance/set_state, is_ended) compared line by line; non-trivial as above; distinct = hash of the case",
        cases_v.len() as u64,
        nontrivial.len() as u64,
        samples,
        t0.elapsed().as_secs_f64(),
    );
    let _ = std::fs::remove_file(&cases_file);
    let _ = std::fs::remove_file(&out_file);
    let _ = std::fs::remove_file(format!("{}.stats.json", out_file.display()));
    crate::fuzzdrv::campaign(run, "fz_c20", 38_400_000);
}

#[allow(dead_code)]
fn _unused(_: Tier) {}

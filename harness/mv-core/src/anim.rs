//! Serialisable description of a state animator (5 states), its operations, and the builder that
//! turns it into a real `EnumStateAnimator` through `StateAnimatorBuilder`.

use crate::desc::*;
use mina::prelude::*;
use serde::{Deserialize, Serialize};

pub const NSTATE: usize = 5;

#[derive(Clone, Copy, Debug, Default, PartialEq, Eq, State)]
pub enum St {
    S0,
    /// the enum's default is deliberately NOT its first variant
    #[default]
    S1,
    /// a data-carrying variant (the `State` derive supports payloads that are themselves enumerable):
    /// `P(false)` and `P(true)` are two different states although they share a discriminant
    P(bool),
    S4,
}
pub const STATES: [St; NSTATE] = [St::S0, St::S1, St::P(false), St::P(true), St::S4];
pub fn st_index(s: &St) -> usize {
    STATES.iter().position(|x| x == s).unwrap()
}

pub type Anim = mina::EnumStateAnimator<St, PTimeline>;

#[derive(Clone, Debug, Serialize, Deserialize)]
pub struct AnimDesc {
    /// per state: None = no timeline, Some(components) = merged timeline of the components
    pub states: Vec<Option<Vec<TlDesc>>>,
    pub initial_state: u8,
    pub initial_values: Vals,
    /// order of the builder calls (must not matter): 0 = from_state, from_values, on...;
    /// 1 = on..., from_values, from_state; 2 = from_state, on..., from_values;
    /// bit 2 set = every state first gets a throw-away timeline that the real `on` call replaces
    #[serde(default)]
    pub builder_order: u8,
}

/// grid unit for exactly representable steps: 2^-9 s = 1 953 125 ns
pub const GRID_NS: u128 = 1_953_125;
pub const GRID_S: f64 = 1.0 / 512.0;

#[derive(Clone, Copy, Debug, PartialEq, Serialize, Deserialize)]
pub enum Step {
    Zero,
    /// n grid units
    Grid(u32),
    /// arbitrary f32 seconds (>= 0)
    Arb(f32),
    /// land on the end instant of the current state's timeline, displaced by `off` grid units
    /// (falls back to one grid unit when there is no finite end ahead)
    ToEnd { off: i8 },
    /// land on the end instant displaced by whole cycles of the state's first component (for very
    /// long animations only whole cycles are still representable next to the end)
    ToEndCycles { cycles: i8 },
    /// first advance in a state: land a few f32 steps before / after the end instant
    ToEndUlps { ulps: i8 },
}

#[derive(Clone, Copy, Debug, PartialEq, Serialize, Deserialize)]
pub enum AOp {
    Adv(Step),
    Set(u8),
}

impl AnimDesc {
    pub fn build(&self) -> Anim {
        let init = STATES[self.initial_state as usize % NSTATE];
        let vals = P::from_vals(&self.initial_values);
        let order = self.builder_order % 4 % 3;
        let replace = self.builder_order & 4 != 0;
        // bit 3: leave `from_state` out when the initial state is the state type's Default anyway
        let implicit_state = self.builder_order & 8 != 0 && init == St::default();
        // bit 4: leave `from_values` out when the initial values are the target type's Default anyway
        let zero = Vals { a: 0.0, b: 0.0, c: 0, d: 0 };
        let implicit_values = self.builder_order & 16 != 0 && self.initial_values == zero;
        let mut b = StateAnimatorBuilder::<St, PTimeline>::new();
        if order == 0 {
            if !implicit_state {
                b = b.from_state(init);
            }
            if !implicit_values {
                b = b.from_values(vals.clone());
            }
        } else if order == 2 && !implicit_state {
            b = b.from_state(init);
        }
        for (i, s) in self.states.iter().enumerate() {
            if let Some(comps) = s {
                if replace {
                    // a later `on` for the same state replaces the earlier one
                    let dummy = TimelineBuilder::build(P::timeline().duration_seconds(7.0).keyframe(P::keyframe(1.0).a(-123.0).b(456.0).c(-789).d(201)));
                    b = b.on(STATES[i], dummy);
                }
                b = b.on(STATES[i], MergedTimeline::of(comps.iter().map(|c| c.build())));
            }
        }
        if order == 1 {
            if !implicit_values {
                b = b.from_values(vals);
            }
            if !implicit_state {
                b = b.from_state(init);
            }
        } else if order == 2 && !implicit_values {
            b = b.from_values(vals);
        }
        b.build()
    }
    pub fn animated(&self) -> Vec<bool> {
        self.states.iter().map(|s| s.is_some()).collect()
    }
    pub fn twin(&self, s: usize) -> Option<MergedTimeline<PTimeline>> {
        self.states[s].as_ref().map(|comps| MergedTimeline::of(comps.iter().map(|c| c.build())))
    }
    /// total duration of state s per the model (max over components), None = no timeline
    pub fn total(&self, s: usize) -> Option<f64> {
        self.states[s].as_ref().map(|comps| comps.iter().map(|c| c.timing.total()).fold(0.0f64, f64::max))
    }
}


//! C04, C05, C06, C07 (+ the animator part of C08): state animator histories.

use mv_core::desc::*;
use mv_core::oracle::*;
use mina::prelude::*;
use mv_engine::{Obs, Run};
use mv_model::{exact32, step32, ulp32, AnimModel, Enter, Rep, Timing};
use proptest::prelude::*;
use serde::{Deserialize, Serialize};
use std::time::Duration;

pub use mv_core::anim::*;

/// Model of one state's merged timeline: the last component animating a property wins.
pub struct ModelState {
    pub comps: Vec<ModelTl>,
}
impl ModelState {
    pub fn new(comps: &[TlDesc]) -> Self {
        ModelState { comps: comps.iter().map(ModelTl::new).collect() }
    }
    pub fn owner(&self, i: usize) -> Option<&ModelTl> {
        self.comps.iter().rev().find(|m| m.animates(i))
    }
}

pub fn animator_timing_strategy() -> impl Strategy<Value = Timing> {
    // (rarely a repeat count around 2^24, where `count + 1` stops being representable in f32)
    let rep = prop_oneof![15 => Just(Rep::None), 12 => (0u32..=3).prop_map(Rep::Times), 6 => Just(Rep::Infinite), 1 => prop::sample::select(vec![(1u32 << 24) - 1, 1 << 24, (1 << 24) + 1, (1 << 25) + 3]).prop_map(Rep::Times)];
    let dy = (0u32..=4, rep.clone(), any::<bool>()).prop_flat_map(|(j, repeat, reverse)| {
        let den = (1u32 << j) as f32;
        ((1u32..=64).prop_map(move |m| m as f32 / den), prop_oneof![3 => Just(0.0f32), 2 => (0u32..=48).prop_map(move |n| n as f32 / den)])
            .prop_map(move |(cycle, delay)| Timing { cycle, delay, repeat, reverse })
    });
    let arb = (prop_oneof![prop::sample::select(vec![0.1f32, 0.3, 1.5, 5.0]), log_uniform(-2.0, 2.0)], prop_oneof![2 => Just(0.0f32), 1 => prop::sample::select(vec![0.1f32, 0.3, 2.0]), 1 => log_uniform(-2.0, 1.0)], rep, any::<bool>())
        .prop_map(|(cycle, delay, repeat, reverse)| Timing { cycle, delay, repeat, reverse });
    prop_oneof![7 => dy, 3 => arb]
}

pub fn anim_desc_strategy() -> impl Strategy<Value = AnimDesc> {
    let comp = || tl_strategy_animator(animator_timing_strategy());
    let st = |w_anim: u32, w_none: u32| {
        prop_oneof![
            w_none => Just(None),
            // a registered timeline that happens to be an EMPTY merge: it animates nothing and has ended
            // at once, but the state still "has a timeline" (entering it discards a remembered pause)
            1 => Just(Some(vec![])),
            w_anim * 6 => comp().prop_map(|c| Some(vec![c])),
            w_anim * 2 => (comp(), comp()).prop_map(|(a, b)| Some(vec![a, b])),
            w_anim => (comp(), comp(), comp()).prop_map(|(a, b, c)| Some(vec![a, b, c])),
        ]
    };
    (st(6, 1), st(6, 1), st(6, 1), st(1, 6), st(1, 6), 0u8..5, vals_strategy(), 0u8..32)
        .prop_map(|(s0, s1, s2, s3, s4, initial_state, initial_values, builder_order)| {
            // bit 4 of the builder order: the animator starts from the target type's Default values and
            // `from_values` is not called at all
            let initial_values = if builder_order & 16 != 0 { Vals { a: 0.0, b: 0.0, c: 0, d: 0 } } else { initial_values };
            AnimDesc { states: vec![s0, s1, s2, s3, s4], initial_state, initial_values, builder_order }
        })
}

pub fn step_strategy() -> impl Strategy<Value = Step> {
    prop_oneof![
        2 => Just(Step::Zero),
        8 => prop::sample::select(vec![1u32, 32, 128, 256, 512, 1536, 51200]).prop_map(Step::Grid),
        3 => (1u32..4096).prop_map(Step::Grid),
        3 => prop_oneof![(0.0f32..4.0), log_uniform(-4.0, 2.5)].prop_map(Step::Arb),
        // frames far shorter than a display frame (nanoseconds to microseconds): they still count
        1 => prop_oneof![Just(1.0e-9f32), Just(1.0e-7f32), Just(f32::EPSILON), log_uniform(-9.5, -4.0)].prop_map(Step::Arb),
        // rarely an astronomic frame (two of them saturate the clock of the current state - and only that)
        1 => prop_oneof![3 => Just(1.0e19f32), 1 => Just(1.0e15f32), 1 => Just(4.0e9f32)].prop_map(Step::Arb),
        4 => (-2i8..=2).prop_map(|off| Step::ToEnd { off }),
        1 => (-2i8..=2).prop_map(|cycles| Step::ToEndCycles { cycles }),
        1 => (-3i8..=3).prop_map(|ulps| Step::ToEndUlps { ulps }),
    ]
}

pub fn ops_strategy(max: usize) -> impl Strategy<Value = Vec<AOp>> {
    let op = prop_oneof![
        5 => step_strategy().prop_map(AOp::Adv),
        4 => (0u8..5).prop_map(AOp::Set),
    ];
    prop::collection::vec(op, 1..=max)
}

#[derive(Clone, Debug, Serialize, Deserialize)]
pub struct HistCase {
    pub desc: AnimDesc,
    pub ops: Vec<AOp>,
}

pub fn hist_strategy(max_ops: usize) -> impl Strategy<Value = HistCase> {
    (anim_desc_strategy(), ops_strategy(max_ops)).prop_map(|(desc, ops)| HistCase { desc, ops })
}

fn same_f(a: f32, b: f32) -> bool {
    a.to_bits() == b.to_bits() || (a == 0.0 && b == 0.0)
}
pub fn same_vals(x: &P, y: &P) -> bool {
    same_f(x.a, y.a) && same_f(x.b, y.b) && x.c == y.c && x.d == y.d && same_f(x.s, y.s) && x.z == y.z
}

#[derive(Clone, Copy, Default)]
pub struct Asserts {
    pub c04: bool,
    pub c05: bool,
    pub c07: bool,
    pub c08: bool,
}

// label bits shared by the history checks
pub const H_LABELS: [&str; 16] = [
    "resume", "blend_after_pause_discarded", "merged_target", "ge_3_transitions", "pause", "set_to_different_animated_while_values_differ",
    "redundant_set_state", "landed_exactly_on_end", "crossed_end", "infinite_state", "exact_time_domain", "tolerance_fallback", "unanimated_to_unanimated",
    "ended_checked_exact", "ended_near_band", "frozen_checked",
];

/// Time in the current state as the model tracks it.
#[derive(Clone, Copy, Debug)]
struct MTime {
    /// exact nanoseconds when every step so far (in this state) was exactly representable
    ns: u128,
    exact: bool,
    /// best real-valued estimate (seconds) and its uncertainty
    secs: f64,
    unc: f64,
}
impl MTime {
    fn zero() -> Self {
        MTime { ns: 0, exact: true, secs: 0.0, unc: 0.0 }
    }
    fn from_ns(ns: u128) -> Self {
        // grid multiples convert exactly; anything else only approximately
        let secs = if ns % GRID_NS == 0 { (ns / GRID_NS) as f64 / 512.0 } else { ns as f64 * 1e-9 };
        MTime { ns, exact: true, secs, unc: 0.0 }
    }
}

pub struct Exec<'a> {
    desc: &'a AnimDesc,
    pub anim: Anim,
    model: AnimModel,
    t: MTime,
    paused_t: Option<MTime>,
    twins: Vec<Option<MergedTimeline<PTimeline>>>,
    mstates: Vec<Option<ModelState>>,
    /// values substituted at the latest blend into each state
    entry: Vec<Option<P>>,
    transitions: u32,
    pauses: u32,
    ended_seen: bool,
    frozen: Option<P>,
    pub n_resume: u32,
    /// sentinel tracking for C08: bits of fields no state animates
    never_animated: Vec<bool>,
}

impl<'a> Exec<'a> {
    pub fn new(desc: &'a AnimDesc) -> Self {
        let anim = desc.build();
        let init = desc.initial_state as usize % NSTATE;
        let mut twins: Vec<Option<MergedTimeline<PTimeline>>> = (0..NSTATE).map(|s| desc.twin(s)).collect();
        let mstates: Vec<Option<ModelState>> = desc.states.iter().map(|s| s.as_ref().map(|c| ModelState::new(c))).collect();
        let mut entry = vec![None; NSTATE];
        let iv = P::from_vals(&desc.initial_values);
        if let Some(t) = twins[init].as_mut() {
            t.start_with(&iv);
            entry[init] = Some(iv.clone());
        }
        let never_animated = (0..NPROP).map(|i| !mstates.iter().flatten().any(|m| m.owner(i).is_some())).collect();
        Exec {
            desc,
            anim,
            model: AnimModel::new(desc.animated(), init),
            t: MTime::zero(),
            paused_t: None,
            twins,
            mstates,
            entry,
            transitions: 0,
            pauses: 0,
            ended_seen: false,
            frozen: None,
            n_resume: 0,
            never_animated,
        }
    }

    fn resolve_step(&self, st: Step) -> (f32, bool) {
        match st {
            Step::Zero => (0.0, true),
            Step::Grid(n) => ((n as f64 * GRID_S) as f32, true),
            Step::Arb(x) => (x.max(0.0), false),
            Step::ToEndUlps { ulps } => {
                // land `ulps` f32 steps away from the end instant (only meaningful right after entering the state)
                let one = (GRID_S as f32, true);
                let Some(total) = self.desc.total(self.model.state) else { return one };
                if !total.is_finite() || self.t.secs != 0.0 || !(total > 0.0) {
                    return one;
                }
                (step32(total as f32, ulps as i32).max(0.0), false)
            }
            Step::ToEndCycles { cycles } => {
                let one = (GRID_S as f32, true);
                let Some(total) = self.desc.total(self.model.state) else { return one };
                let Some(comps) = self.desc.states[self.model.state].as_ref() else { return one };
                if !total.is_finite() || !self.t.exact {
                    return one;
                }
                let target = total + cycles as f64 * comps.first().map(|c| c.timing.cycle as f64).unwrap_or(0.0);
                let rem = target - self.t.secs;
                // exact only if the remaining time is a whole number of grid units and representable
                if rem > 0.0 && exact32(rem) && (rem * 512.0).fract() == 0.0 && rem * 512.0 < 1e15 {
                    (rem as f32, true)
                } else {
                    one
                }
            }
            Step::ToEnd { off } => {
                let one = (GRID_S as f32, true);
                let Some(total) = self.desc.total(self.model.state) else { return one };
                if !total.is_finite() || !self.t.exact {
                    return one;
                }
                let total_ns = total * 1e9;
                if total_ns.fract() != 0.0 || (total_ns as u128) % GRID_NS != 0 {
                    // not on the grid: land as close as f32 allows
                    let rem = total - self.t.secs + off as f64 * GRID_S;
                    if rem > 0.0 {
                        return (rem as f32, false);
                    }
                    return one;
                }
                let target = total_ns as i128 + off as i128 * GRID_NS as i128;
                let rem = target - self.t.ns as i128;
                if rem <= 0 {
                    return one;
                }
                if rem as u128 % GRID_NS != 0 {
                    return one;
                }
                let secs = (rem as u128 / GRID_NS) as f64 / 512.0;
                if exact32(secs) {
                    (secs as f32, true)
                } else {
                    one
                }
            }
        }
    }

    /// Compares implementation values with the model's expectation for the current state/time.
    fn check_values(&mut self, asserts: &Asserts, obs: &mut Obs, before: &P, what: &str) -> Result<(), String> {
        let s = self.model.state;
        let got = self.anim.current_values().clone();
        let Some(twin) = self.twins[s].as_ref() else {
            // no timeline: values frozen
            if asserts.c05 && !same_vals(&got, before) {
                return Err(format!("{what}: state {s} has no timeline but values changed {:?} -> {:?}", before, got));
            }
            return Ok(());
        };
        if !asserts.c05 {
            return Ok(());
        }
        // candidate f32 times around the model time
        let tc = self.t.secs as f32;
        let mut matched = false;
        for k in [0i32, -1, 1, -2, 2] {
            let tk = step32(tc, k);
            if tk < 0.0 {
                continue;
            }
            let mut v = before.clone();
            twin.update(&mut v, tk);
            if same_vals(&v, &got) {
                matched = true;
                break;
            }
        }
        if matched && self.t.exact {
            obs.label(10);
            return Ok(());
        }
        if matched {
            return Ok(());
        }
        // tolerance domain: judge against the f64 model of the state's timeline
        obs.label(11);
        let ms = self.mstates[s].as_ref().unwrap();
        let entry = self.entry[s].clone();
        for i in 0..NPROP {
            match ms.owner(i) {
                None => {
                    if got.bits()[i] != before.bits()[i] {
                        return Err(format!("{what}: property {} is not animated by state {s} but changed", PROP_NAMES[i]));
                    }
                }
                Some(m) => {
                    let start = entry.as_ref().map(|e| e.get(i));
                    m.judge_window(i, self.t.secs, self.t.unc + 2.0 * ulp32(tc) as f64 + 2e-9, start, got.get(i)).map_err(|e| {
                        format!("{what}: state {s} at model time {:.9}s (exact={}): {e}; no bit-exact match with the twin timeline within +-2ulp of that time either", self.t.secs, self.t.exact)
                    })?;
                }
            }
        }
        Ok(())
    }

    fn check_ended(&mut self, asserts: &Asserts, obs: &mut Obs, what: &str) -> Result<(), String> {
        if !asserts.c07 {
            return Ok(());
        }
        let s = self.model.state;
        let got = self.anim.is_ended();
        let total = self.desc.total(s);
        match total {
            None => {
                if !got {
                    return Err(format!("{what}: state {s} has no timeline but is_ended() is false"));
                }
            }
            Some(tt) if tt.is_infinite() => {
                obs.label(9);
                if got {
                    return Err(format!("{what}: is_ended() is true although a component of state {s} repeats infinitely (time {:.6})", self.t.secs));
                }
            }
            Some(tt) => {
                let t = self.t.secs;
                // the implementation's duration() is computed in f32: exact domain only when every
                // component total is representable
                let totals_exact = self.desc.states[s].as_ref().unwrap().iter().all(|c| exact32(c.timing.total()) && exact32(c.timing.cycle as f64 * c.timing.repeat.cycles().unwrap_or(1) as f64));
                let exact = self.t.exact && exact32(t) && totals_exact;
                let want = t >= tt;
                if exact {
                    obs.label(13);
                    if t == tt {
                        obs.label(7);
                    }
                    if got != want {
                        return Err(format!("{what}: is_ended() = {got} at time-in-state {t} s with total duration {tt} s (exact domain: both exactly representable)"));
                    }
                } else {
                    // what a faithful implementation may legitimately round: the time in state to
                    // the nearest f32 (half an ulp), and - when the total is not itself representable -
                    // the f32 computation of delay + cycle x (repeats+1)
                    let band = 0.5 * ulp32(t as f32) as f64 + if totals_exact { 0.0 } else { 1.5 * ulp32(tt as f32) as f64 } + self.t.unc + 1e-9;
                    if (t - tt).abs() <= band {
                        obs.label(14);
                        obs.near += 1;
                    } else if got != want {
                        return Err(format!("{what}: is_ended() = {got} at time-in-state {t} s with total duration {tt} s (outside the rounding band {band:.3e})"));
                    }
                }
                // monotone + frozen, judged on the implementation's own reports
                if self.ended_seen && !got {
                    return Err(format!("{what}: is_ended() went back to false at time {t} (total {tt})"));
                }
                let strictly_ended = if exact { t >= tt } else { t > tt + 4.0 * (ulp32(tt as f32) as f64 + ulp32(t as f32) as f64) + self.t.unc + 1e-6 * tt.abs().max(1.0) };
                if strictly_ended {
                    let cur = self.anim.current_values().clone();
                    match &self.frozen {
                        None => {
                            // terminal values per the model (exact domain: equality up to 2 ulp)
                            let ms = self.mstates[s].as_ref().unwrap();
                            for i in 0..NPROP {
                                if let Some(m) = ms.owner(i) {
                                    let want = m.terminal(i).unwrap();
                                    let ok = if PROP_IS_INT[i] { cur.get(i) == want } else { (cur.get(i) as f32 == want as f32) || mv_model::ulps_between(cur.get(i) as f32, want as f32) <= 2 };
                                    // a component that ended earlier than the longest keeps its own terminal value
                                    if !ok {
                                        return Err(format!("{what}: ended (t={t} >= total {tt}) but property {} = {} instead of the terminal value {want}", PROP_NAMES[i], cur.get(i)));
                                    }
                                }
                            }
                            self.frozen = Some(cur);
                            obs.label(8);
                        }
                        Some(f) => {
                            obs.label(15);
                            if !same_vals(f, &cur) {
                                return Err(format!("{what}: values changed after the animation ended: {:?} -> {:?} (t={t}, total {tt})", f, cur));
                            }
                        }
                    }
                }
            }
        }
        if got {
            self.ended_seen = true;
        }
        Ok(())
    }

    pub fn apply(&mut self, op: &AOp, n: usize, asserts: &Asserts, obs: &mut Obs) -> Result<(), String> {
        match *op {
            AOp::Adv(step) => {
                let (dt, exact) = self.resolve_step(step);
                let before = self.anim.current_values().clone();
                let was_ended = self.anim.is_ended();
                self.anim.advance(dt);
                let d = Duration::from_secs_f32(dt);
                if exact && self.t.exact {
                    // representable step: the exact real sum
                    let ns = (dt as f64 * 1e9).round() as u128;
                    debug_assert_eq!(ns, d.as_nanos());
                    self.t = MTime::from_ns(self.t.ns + ns);
                } else {
                    // the time in state saturates at Duration::MAX (about 1.8446744e19 s)
                    self.t = MTime { ns: 0, exact: false, secs: (self.t.secs + dt as f64).min(Duration::MAX.as_secs_f64()), unc: self.t.unc + 1e-9 };
                }
                self.model.advance_ns(d.as_nanos());
                let what = format!("op {n} advance({dt:?})");
                if dt == 0.0 && (asserts.c05 || asserts.c04) {
                    let after = self.anim.current_values();
                    if !same_vals(&before, after) || was_ended != self.anim.is_ended() {
                        return Err(format!("{what}: advance(0) changed the animator: {:?} -> {:?}", before, after));
                    }
                }
                self.check_values(asserts, obs, &before, &what)?;
                self.check_ended(asserts, obs, &what)?;
                obs.judged += 1;
            }
            AOp::Set(s) => {
                let s = s as usize % NSTATE;
                let before = self.anim.current_values().clone();
                let prev_state = self.model.state;
                let prev_t = self.t;
                let had_pause = self.model.paused;
                self.anim.set_state(&STATES[s]);
                let after = self.anim.current_values().clone();
                let what = format!("op {n} set_state({s}) from state {prev_state}");
                if asserts.c04 && !same_vals(&before, &after) {
                    return Err(format!("{what}: current_values jumped at the call: {:?} -> {:?}", before, after));
                }
                if asserts.c05 && st_index(self.anim.current_state()) != s {
                    return Err(format!("{what}: current_state() reports {:?}", self.anim.current_state()));
                }
                let enter = self.model.set_state(s);
                match enter {
                    Enter::Same => {
                        obs.label(6);
                    }
                    Enter::Resume => {
                        obs.label(0);
                        self.n_resume += 1;
                        self.transitions += 1;
                        self.t = self.paused_t.take().unwrap_or(MTime::zero());
                        self.ended_seen = false;
                        self.frozen = None;
                    }
                    Enter::Blend => {
                        self.transitions += 1;
                        if let Some((ps, _)) = had_pause {
                            if self.model.paused.is_none() {
                                obs.label(1);
                                let _ = ps;
                            }
                        }
                        self.paused_t = if self.model.paused.is_some() { self.paused_t } else { None };
                        self.t = MTime::zero();
                        if let Some(tw) = self.twins[s].as_mut() {
                            tw.start_with(&before);
                        }
                        self.entry[s] = Some(before.clone());
                        obs.label_if(2, self.desc.states[s].as_ref().map(|c| c.len() > 1).unwrap_or(false));
                        // non-trivial for C04: values differ from the target state's own 0 % keyframe
                        if let Some(ms) = self.mstates[s].as_ref() {
                            for i in 0..NPROP {
                                if let Some(m) = ms.owner(i) {
                                    if m.frames[i][0].value != before.get(i) {
                                        obs.label(5);
                                    }
                                }
                            }
                        }
                        self.ended_seen = false;
                        self.frozen = None;
                    }
                    Enter::Freeze => {
                        self.transitions += 1;
                        if self.model.animated[prev_state] {
                            self.pauses += 1;
                            obs.label(4);
                            self.paused_t = Some(prev_t);
                        } else {
                            obs.label(12);
                        }
                        self.t = MTime::zero();
                        self.ended_seen = false;
                        self.frozen = None;
                    }
                }
                if enter != Enter::Same {
                    self.check_values(asserts, obs, &before, &what)?;
                    self.check_ended(asserts, obs, &what)?;
                } else if asserts.c07 {
                    self.check_ended(asserts, obs, &what)?;
                }
                obs.label_if(3, self.transitions >= 3);
                obs.judged += 1;
            }
        }
        #[cfg(feature = "hooks")]
        if asserts.c05 {
            // hook (feature verif-hooks): internal time in state and pause record agree with the model
            let (t_in_state, paused) = self.anim.verif_snapshot();
            if self.t.exact {
                if t_in_state.as_nanos() != self.t.ns {
                    return Err(format!("op {n}: internal time in state is {:?} but the model's exact time is {} ns", t_in_state, self.t.ns));
                }
            } else if (t_in_state.as_secs_f64() - self.t.secs).abs() > self.t.unc + 1e-9 + 1e-7 * self.t.secs.abs() {
                return Err(format!("op {n}: internal time in state is {:?} but the model's time is {} s", t_in_state, self.t.secs));
            }
            let want = self.model.paused.map(|(s, _)| s);
            let got = paused.as_ref().map(|(s, _)| st_index(s));
            if want != got {
                return Err(format!("op {n}: remembered interrupted animation is {:?} but the rules say {:?}", paused.as_ref().map(|(s, d)| (st_index(s), *d)), self.model.paused));
            }
            if let (Some((_, d)), Some(pt)) = (paused.as_ref(), self.paused_t.as_ref()) {
                if pt.exact && d.as_nanos() != pt.ns {
                    return Err(format!("op {n}: remembered position is {:?} but the interrupted animation was at {} ns", d, pt.ns));
                }
            }
        }
        if asserts.c08 {
            let cur = self.anim.current_values();
            let init = P::from_vals(&self.desc.initial_values);
            for i in 0..NPROP {
                if self.never_animated[i] && cur.bits()[i] != init.bits()[i] {
                    return Err(format!("op {n}: property {} is animated by no state but changed from its initial value: {:?}", PROP_NAMES[i], cur));
                }
            }
            if cur.bits()[4] != init.bits()[4] || cur.bits()[5] != init.bits()[5] {
                return Err(format!("op {n}: excluded field changed: {:?}", cur));
            }
        }
        Ok(())
    }
}

pub fn run_history(c: &HistCase, asserts: &Asserts, obs: &mut Obs) -> Result<(), String> {
    let mut ex = Exec::new(&c.desc);
    // initial observation (empty history)
    if asserts.c05 {
        let init = c.desc.initial_state as usize % NSTATE;
        if st_index(ex.anim.current_state()) != init {
            return Err(format!("initial current_state() is {:?}, expected state {init}", ex.anim.current_state()));
        }
        let iv = P::from_vals(&c.desc.initial_values);
        if !same_vals(ex.anim.current_values(), &iv) {
            return Err(format!("initial current_values() {:?} differ from the given initial values {:?}", ex.anim.current_values(), iv));
        }
    }
    if asserts.c07 {
        ex.check_ended(asserts, obs, "initial")?;
    }
    for (n, op) in c.ops.iter().enumerate() {
        ex.apply(op, n, asserts, obs)?;
    }
    Ok(())
}

// =============================================================================================
// C04

pub fn c04_judge(c: &HistCase, obs: &mut Obs) -> Result<(), String> {
    let asserts = Asserts { c04: true, ..Default::default() };
    run_history(c, &asserts, obs)?;
    obs.nontrivial = obs.labels & (1 << 5) != 0;
    // redundant set_state: insert set_state(current) after a prefix and compare the whole future
    let cut = c.ops.len() / 2;
    let mut a = c.desc.build();
    let mut b = c.desc.build();
    let run_op = |an: &mut Anim, ex_t: &mut Exec, op: &AOp| {
        // resolve steps through a shadow Exec so that both animators receive identical f32 steps
        match *op {
            AOp::Adv(st) => {
                let (dt, _) = ex_t.resolve_step(st);
                an.advance(dt);
                dt
            }
            AOp::Set(s) => {
                an.set_state(&STATES[s as usize % NSTATE]);
                0.0
            }
        }
    };
    let mut shadow = Exec::new(&c.desc);
    let none = Asserts::default();
    let mut sink = Obs::default();
    for (n, op) in c.ops.iter().enumerate() {
        if n == cut {
            let cur = b.current_state().clone();
            let before = b.current_values().clone();
            b.set_state(&cur);
            if !same_vals(&before, b.current_values()) {
                return Err(format!("redundant set_state({:?}) after {cut} ops changed the values {:?} -> {:?}", cur, before, b.current_values()));
            }
            obs.label(6);
        }
        run_op(&mut a, &mut shadow, op);
        run_op(&mut b, &mut shadow, op);
        shadow.apply(op, n, &none, &mut sink)?;
        if !same_vals(a.current_values(), b.current_values()) || a.is_ended() != b.is_ended() || a.current_state() != b.current_state() {
            return Err(format!(
                "a redundant set_state(current) inserted before op {cut} changes the future: after op {n} values {:?} vs {:?}, ended {} vs {}",
                a.current_values(), b.current_values(), a.is_ended(), b.is_ended()
            ));
        }
    }
    Ok(())
}

pub fn c04(run: &mut Run) {
    run.assume("animator timelines: built-in easings without the Back family, distinct keyframe positions, non-negative delays (the property's stated domain)");
    let cases = run.tier.pick(200_000, 10_000_000);
    run.prop(
        "c04_nojump",
        "proptest: animator over 5 states (none/single/merged timelines; delayed, repeating, reversing, infinite) x history <=24 of advance/set_state; oracle: current_values bitwise equal immediately before and after every set_state; a redundant set_state(current) inserted mid-history leaves every later observation bit-identical; non-trivial = a set_state into a different animated state while values differ from that state's own 0% keyframe",
        &H_LABELS,
        hist_strategy(24),
        cases,
        c04_judge,
    );
    for (l, f) in [("resume", 0.1), ("blend_after_pause_discarded", 0.05), ("merged_target", 0.1), ("set_to_different_animated_while_values_differ", 0.3), ("ge_3_transitions", 0.3)] {
        run.require_label("c04_nojump", l, f);
    }
}

// =============================================================================================
// C05

pub fn c05_judge(c: &HistCase, obs: &mut Obs) -> Result<(), String> {
    let asserts = Asserts { c05: true, ..Default::default() };
    run_history(c, &asserts, obs)?;
    let l = obs.labels;
    obs.nontrivial = l & (1 << 4) != 0 && (l & 1 != 0 || l & 2 != 0) && l & (1 << 3) != 0;
    Ok(())
}

fn c05_fixed_configs() -> Vec<AnimDesc> {
    let kf = |pos: f32, a: Option<f32>, c: Option<i32>| KfDesc { pos, a, b: None, c, d: None, ez: None };
    let tl = |cycle: f32, delay: f32, repeat: Rep, reverse: bool, ez: Ez, kfs: Vec<KfDesc>| TlDesc { timing: Timing { cycle, delay, repeat, reverse }, default_ez: ez, kfs, order: 0 };
    let a = tl(2.0, 0.0, Rep::None, false, Ez::Linear, vec![kf(0.0, Some(0.0), Some(0)), kf(1.0, Some(100.0), Some(1000))]);
    let b = tl(4.0, 0.5, Rep::Times(1), true, Ez::OutQuad, vec![kf(0.25, Some(-50.0), None), kf(0.75, Some(50.0), Some(-500))]);
    let cc = tl(1.0, 0.0, Rep::Infinite, false, Ez::InOutSine, vec![kf(0.0, Some(10.0), None), kf(0.5, Some(20.0), None), kf(1.0, Some(10.0), None)]);
    let d = tl(3.0, 1.0, Rep::None, false, Ez::Ease, vec![kf(1.0, None, Some(77))]);
    let iv = Vals { a: 5.0, b: 6.0, c: 7, d: 8 };
    vec![
        AnimDesc { states: vec![Some(vec![a.clone()]), Some(vec![b.clone()]), None, None, Some(vec![cc.clone()])], initial_state: 0, initial_values: iv, builder_order: 0 },
        AnimDesc { states: vec![None, Some(vec![a.clone()]), Some(vec![b.clone()]), None, None], initial_state: 0, initial_values: iv, builder_order: 0 },
        AnimDesc { states: vec![Some(vec![a.clone(), d.clone()]), None, Some(vec![cc.clone()]), None, Some(vec![b.clone()])], initial_state: 2, initial_values: iv, builder_order: 0 },
        AnimDesc { states: vec![Some(vec![b.clone()]), Some(vec![d.clone()]), None, Some(vec![a.clone()]), None], initial_state: 1, initial_values: iv, builder_order: 0 },
        AnimDesc { states: vec![Some(vec![cc.clone()]), Some(vec![cc.clone(), a.clone()]), Some(vec![d.clone()]), None, None], initial_state: 3, initial_values: iv, builder_order: 0 },
        AnimDesc { states: vec![Some(vec![a]), Some(vec![b]), Some(vec![cc]), Some(vec![d]), None], initial_state: 4, initial_values: iv, builder_order: 0 },
    ]
}

pub fn c05(run: &mut Run) {
    run.extra("c05_internal_snapshot_hook", serde_json::json!(if cfg!(feature = "hooks") { "compared after every operation (mina_core feature verif-hooks)" } else { "UNAVAILABLE: the hook did not compile against this tree; outputs only" }));
    if !cfg!(feature = "hooks") {
        println!("NOTE property=C05 built without the verif-hooks feature (it does not compile against this tree): internal time / pause record not compared, outputs are");
    }
    run.assume("animator timelines: built-in easings without Back, distinct keyframe positions, non-negative delays");
    run.assume("the twin timeline (same description, start_with the model's entry values) evaluated at the model's time is the definition of the expected values; the timeline itself is C01's subject");
    let cases = run.tier.pick(200_000, 10_000_000);
    run.prop(
        "c05_model",
        "proptest: animator configuration x history <=24; after EVERY operation current_state and current_values are compared with the blend/pause/resume model + twin timeline at the model's time (bit-exact within +-2 ulp of the time, else per-case tolerance); non-trivial = history has a pause, a return (resume or discarded-pause blend) and >= 3 transitions",
        &H_LABELS,
        hist_strategy(24),
        cases,
        c05_judge,
    );
    run.require_label("c05_model", "resume", 0.1);
    run.require_label("c05_model", "blend_after_pause_discarded", 0.05);
    run.require_label("c05_model", "pause", 0.2);
    c05_long_histories(run);
    crate::fuzzdrv::campaign(run, "fz_c05", 14_400_000);
    // exhaustive enumeration of all histories up to a depth over a 9-letter alphabet
    let depth: u32 = if run.tier == mv_engine::Tier::Quick { 6 } else { 8 };
    let alphabet: Vec<AOp> = vec![
        AOp::Adv(Step::Zero), AOp::Adv(Step::Grid(128)), AOp::Adv(Step::Grid(512)), AOp::Adv(Step::Grid(1536)),
        AOp::Set(0), AOp::Set(1), AOp::Set(2), AOp::Set(3), AOp::Set(4),
    ];
    let configs = c05_fixed_configs();
    let per: u64 = (alphabet.len() as u64).pow(depth);
    let total = per * configs.len() as u64;
    let asserts = Asserts { c05: true, c04: true, ..Default::default() };
    run.enumerate(
        "c05_exhaustive",
        &format!("ALL histories of length {depth} over the alphabet advance(0 | 0.25 | 1 | 3 s) / set_state(0..4) for 6 fixed configurations (prefixes are shorter histories), model compared after every op; non-trivial = history with pause + return + >=3 transitions; every index is a distinct history"),
        total,
        4096,
        true,
        |range, eo| {
            for idx in range {
                let cfg = (idx / per) as usize;
                let mut code = idx % per;
                let mut ops = Vec::with_capacity(depth as usize);
                for _ in 0..depth {
                    ops.push(alphabet[(code % alphabet.len() as u64) as usize]);
                    code /= alphabet.len() as u64;
                }
                let case = HistCase { desc: configs[cfg].clone(), ops };
                let mut obs = Obs::default();
                if let Err(d) = run_history(&case, &asserts, &mut obs) {
                    return Err((serde_json::json!({"index": idx, "history": case}), d));
                }
                eo.evaluated += 1;
                let l = obs.labels;
                if l & (1 << 4) != 0 && (l & 1 != 0 || l & 2 != 0) && l & (1 << 3) != 0 {
                    eo.nontrivial += 1;
                    eo.sample(|| serde_json::json!({"index": idx, "ops": case.ops}));
                }
            }
            Ok(())
        },
    );
}

// =============================================================================================
// C07

pub fn c07_judge(c: &HistCase, obs: &mut Obs) -> Result<(), String> {
    let asserts = Asserts { c07: true, ..Default::default() };
    run_history(c, &asserts, obs)?;
    let l = obs.labels;
    obs.nontrivial = l & (1 << 8) != 0 && l & (1 << 15) != 0;
    Ok(())
}

pub fn c07_strategy() -> impl Strategy<Value = HistCase> {
    // more ToEnd steps, fewer transitions, so that histories cross the end instant
    let op = prop_oneof![
        4 => step_strategy().prop_map(AOp::Adv),
        4 => (-2i8..=2).prop_map(|off| AOp::Adv(Step::ToEnd { off })),
        1 => (-3i8..=3).prop_map(|ulps| AOp::Adv(Step::ToEndUlps { ulps })),
        2 => (0u8..5).prop_map(AOp::Set),
    ];
    (anim_desc_strategy(), prop::collection::vec(op, 1..=20)).prop_map(|(desc, ops)| HistCase { desc, ops })
}

pub fn c07(run: &mut Run) {
    run.assume("exact domain for equality at the end instant: time in state is a sum of exactly representable steps, itself representable in f32, and every component total is representable; otherwise either answer is accepted within a band of 2(ulp(total)+ulp(t))");
    let cases = run.tier.pick(200_000, 15_000_000);
    run.prop(
        "c07_ended",
        "proptest: animator configuration (incl. merged, infinite, no-timeline states) x history <=20 biased to land exactly on / one grid step before / beyond the end instant; oracle: is_ended == (no timeline or t >= max component total), never with an infinite component, monotone until set_state, values bitwise frozen at the model's terminal values once ended; non-trivial = history crosses the end instant and keeps advancing afterwards",
        &H_LABELS,
        c07_strategy(),
        cases,
        c07_judge,
    );
    for (l, f) in [("landed_exactly_on_end", 0.1), ("crossed_end", 0.2), ("frozen_checked", 0.1), ("infinite_state", 0.1), ("ended_checked_exact", 0.3)] {
        run.require_label("c07_ended", l, f);
    }
    c07_long_repeats(run);
    // exhaustive sweep: every total duration on the 1/512 s grid up to 4 s x landing exactly on it
    let total: u64 = 2048 * 3;
    run.enumerate(
        "c07_grid_landing",
        "ALL total durations n/512 s (n=1..2048) x {single advance, two advances, with 0.5 s delay}: advance to exactly the end instant -> is_ended must be true and values terminal; one grid step before -> false; exhaustive over that grid",
        total,
        64,
        true,
        |range, eo| {
            for idx in range {
                let n = (idx % 2048) as u32 + 1;
                let mode = idx / 2048;
                let dur = n as f32 / 512.0;
                let (cycle, delay) = if mode == 2 { (dur, 0.5f32) } else { (dur, 0.0) };
                let tl = TlDesc {
                    timing: Timing { cycle, delay, repeat: Rep::None, reverse: false },
                    default_ez: Ez::Linear,
                    kfs: vec![KfDesc { pos: 0.0, a: Some(0.0), b: None, c: Some(0), d: None, ez: None }, KfDesc { pos: 1.0, a: Some(100.0), b: None, c: Some(1000), d: None, ez: None }], order: 0 };
                let desc = AnimDesc { states: vec![Some(vec![tl]), None, None, None, None], initial_state: 0, initial_values: Vals { a: 0.0, b: 0.0, c: 0, d: 0 }, builder_order: 0 };
                let mut an = desc.build();
                let tot = cycle + delay;
                let fail = |d: String| (serde_json::json!({"index": idx, "total_s": tot, "mode": mode}), d);
                if mode == 1 && n > 1 {
                    an.advance(1.0 / 512.0);
                    if an.is_ended() {
                        return Err(fail(format!("is_ended() true after 1/512 s of {tot} s")));
                    }
                    an.advance(tot - 1.0 / 512.0 - 1.0 / 512.0);
                } else {
                    an.advance(tot - 1.0 / 512.0);
                }
                if an.is_ended() && n > 1 {
                    return Err(fail(format!("is_ended() true one grid step (1/512 s) before the total duration {tot} s")));
                }
                an.advance(1.0 / 512.0);
                if !an.is_ended() {
                    return Err(fail(format!("is_ended() false after advancing by exactly the total duration {tot} s (values {:?})", an.current_values())));
                }
                if an.current_values().a != 100.0 || an.current_values().c != 1000 {
                    return Err(fail(format!("ended at exactly {tot} s but values are {:?}, not the terminal (100, 1000)", an.current_values())));
                }
                eo.evaluated += 1;
                eo.nontrivial += 1;
                eo.sample(|| serde_json::json!({"index": idx, "total_s": tot, "mode": mode}));
            }
            Ok(())
        },
    );
}

/// Very long animations: repeat counts around 2^24 and 2^25, where only whole cycles are still
/// representable next to the end. Advance to total + k cycles (exactly representable) for k = -3..=1.
pub fn c07_long_repeats(run: &mut Run) {
    let counts: [u32; 7] = [(1 << 24) - 2, (1 << 24) - 1, 1 << 24, (1 << 24) + 1, (1 << 25) + 3, (1 << 26) + 12, u32::MAX];
    let cycles: [f32; 5] = [0.5, 1.0, 2.0, 8.0, 16.0];
    let total = (counts.len() * cycles.len() * 5 * 2) as u64;
    run.enumerate(
        "c07_long_repeat_landing",
        "repeat counts {2^24-2, 2^24-1, 2^24, 2^24+1, 2^25+3, 2^26+12, u32::MAX (landing k = 0 only: the neighbours are not representable)} x cycle {0.5, 1, 2, 8, 16} s (up to 6.9e10 s in total) x reverse on/off: one advance to exactly total + k cycles for k = -3..=1 (all exactly representable); is_ended must be (k >= 0) and never flip back; exhaustive over that set",
        total,
        4,
        true,
        |range, eo| {
            for idx in range {
                let mut code = idx as usize;
                let reverse = code % 2 == 1;
                code /= 2;
                let k = (code % 5) as i32 - 3;
                code /= 5;
                let cycle = cycles[code % cycles.len()];
                code /= cycles.len();
                let n = counts[code % counts.len()];
                let tl = TlDesc {
                    timing: Timing { cycle, delay: 0.0, repeat: Rep::Times(n), reverse },
                    default_ez: Ez::Linear,
                    kfs: vec![KfDesc { pos: 0.0, a: Some(0.0), b: None, c: None, d: None, ez: None }, KfDesc { pos: 1.0, a: Some(100.0), b: None, c: None, d: None, ez: None }], order: 0 };
                let total_s = cycle as f64 * (n as f64 + 1.0);
                let t = total_s + k as f64 * cycle as f64;
                let fail = |d: String| (serde_json::json!({"index": idx, "cycle": cycle, "repeat": n, "k": k, "reverse": reverse}), d);
                if !(exact32(total_s) && exact32(t)) {
                    eo.skipped += 1;
                    continue;
                }
                let desc = AnimDesc { states: vec![Some(vec![tl]), None, None, None, None], initial_state: 0, initial_values: Vals { a: 0.0, b: 0.0, c: 0, d: 0 }, builder_order: 0 };
                let mut an = desc.build();
                an.advance(t as f32);
                let want = k >= 0;
                if an.is_ended() != want {
                    return Err(fail(format!("cycle {cycle} s repeated {n} times (total {total_s} s exactly): after advance({t}) is_ended() = {} but the time in state is {} the total", an.is_ended(), if want { "at/after" } else { "before" })));
                }
                if want {
                    let v = an.current_values().a;
                    let terminal = if reverse { 0.0 } else { 100.0 };
                    if v != terminal {
                        return Err(fail(format!("ended but a = {v}, terminal value {terminal}")));
                    }
                }
                eo.evaluated += 1;
                eo.nontrivial += 1;
                eo.sample(|| serde_json::json!({"cycle": cycle, "repeat": n, "k": k, "reverse": reverse}));
            }
            Ok(())
        },
    );
}

// =============================================================================================
// C08 (animator part)

pub fn c08_animator(run: &mut Run) {
    let cases = run.tier.pick(100_000, 3_000_000);
    // strip one or two properties from every timeline of the configuration so that no state animates them
    let strat = (hist_strategy(20), 1u8..15).prop_map(|(mut c, mask)| {
        for st in c.desc.states.iter_mut().flatten() {
            for tl in st.iter_mut() {
                for k in tl.kfs.iter_mut() {
                    if mask & 1 != 0 {
                        k.a = None;
                    }
                    if mask & 2 != 0 {
                        k.b = None;
                    }
                    if mask & 4 != 0 {
                        k.c = None;
                    }
                    if mask & 8 != 0 {
                        k.d = None;
                    }
                }
            }
        }
        c
    });
    run.prop(
        "c08_animator",
        "proptest: animator whose timelines never mention 1-3 of the properties x history <=20; oracle: those properties and the excluded fields keep the initial bit pattern after every op, and a property animated only by other states is frozen (bitwise) while the current state does not animate it (C05 executor's no-timeline/owner rule); non-trivial = >=1 transition into an animated state",
        &H_LABELS,
        strat,
        cases,
        |c: &HistCase, obs: &mut Obs| {
            let asserts = Asserts { c08: true, c05: true, ..Default::default() };
            run_history(c, &asserts, obs)?;
            obs.nontrivial = obs.labels & (1 << 5) != 0 || obs.labels & 1 != 0;
            Ok(())
        },
    );
}

// =============================================================================================
// C06: frame-rate independence

#[derive(Clone, Debug, Serialize, Deserialize)]
pub struct Segment {
    /// interval length in grid units (2^-9 s)
    pub units: u32,
    pub cuts_a: Vec<u16>,
    pub cuts_b: Vec<u16>,
    /// insert zero-length advances in partition B at these (selector) places
    pub zeros_b: Vec<u16>,
    pub then_set: u8,
}

#[derive(Clone, Debug, Serialize, Deserialize)]
pub struct C06Case {
    pub desc: AnimDesc,
    pub segs: Vec<Segment>,
}

fn partition(units: u32, cuts: &[u16]) -> Vec<u32> {
    let mut pts: Vec<u32> = cuts.iter().map(|c| ((*c as u64 * (units as u64 + 1)) >> 16) as u32).collect();
    pts.sort();
    let mut out = vec![];
    let mut last = 0;
    for p in pts {
        out.push(p - last);
        last = p;
    }
    out.push(units - last);
    out
}

fn c06_strategy() -> impl Strategy<Value = C06Case> {
    let seg = (
        prop_oneof![3 => 1u32..2048, 2 => prop::sample::select(vec![512u32, 1024, 1536, 2560, 51200]), 1 => Just(0u32)],
        prop::collection::vec(any::<u16>(), 0..=7),
        prop::collection::vec(any::<u16>(), 0..=7),
        prop::collection::vec(any::<u16>(), 0..=3),
        0u8..5,
    )
        .prop_map(|(units, cuts_a, cuts_b, zeros_b, then_set)| Segment { units, cuts_a, cuts_b, zeros_b, then_set });
    (anim_desc_strategy(), prop::collection::vec(seg, 1..=6)).prop_map(|(desc, segs)| C06Case { desc, segs })
}

pub const C06_LABELS: [&str; 6] = ["different_partitions", "values_changed_in_interval", "zero_steps_inserted", "state_changes", "ended_compared", "merged_state"];

pub fn c06_judge(c: &C06Case, obs: &mut Obs) -> Result<(), String> {
    let mut a = c.desc.build();
    let mut b = c.desc.build();
    for (n, seg) in c.segs.iter().enumerate() {
        // an empty interval: animator A is not advanced at all, B only gets the zero-length steps
        let pa = if seg.units == 0 { vec![] } else { partition(seg.units, &seg.cuts_a) };
        let mut pb = if seg.units == 0 { vec![] } else { partition(seg.units, &seg.cuts_b) };
        for z in &seg.zeros_b {
            let at = mv_engine::pick_idx(*z, pb.len() + 1);
            pb.insert(at, 0);
            obs.label(2);
        }
        if seg.units == 0 && pb.is_empty() {
            pb.push(0);
        }
        let before = a.current_values().clone();
        for u in &pa {
            a.advance((*u as f64 * GRID_S) as f32);
        }
        for u in &pb {
            if *u == 0 {
                // advance(0) changes nothing, wherever it is inserted (also right after a transition)
                let (v0, e0) = (b.current_values().clone(), b.is_ended());
                b.advance(0.0);
                if !same_vals(&v0, b.current_values()) || e0 != b.is_ended() {
                    return Err(format!("segment {n}: advance(0) changed the animator: {:?} (ended {e0}) -> {:?} (ended {})", v0, b.current_values(), b.is_ended()));
                }
                continue;
            }
            b.advance((*u as f64 * GRID_S) as f32);
        }
        let differ = pa.iter().filter(|x| **x != 0).collect::<Vec<_>>() != pb.iter().filter(|x| **x != 0).collect::<Vec<_>>();
        obs.label_if(0, differ);
        let changed = !same_vals(&before, a.current_values());
        obs.label_if(1, changed);
        if differ && changed {
            obs.nontrivial = true;
        }
        if !same_vals(a.current_values(), b.current_values()) {
            return Err(format!(
                "segment {n}: the same {} grid units ({} s) delivered as {:?} vs {:?} (x 1/512 s) give different values: {:?} vs {:?}",
                seg.units, seg.units as f64 * GRID_S, pa, pb, a.current_values(), b.current_values()
            ));
        }
        if a.is_ended() != b.is_ended() {
            return Err(format!("segment {n}: is_ended differs between partitions {:?} and {:?}: {} vs {}", pa, pb, a.is_ended(), b.is_ended()));
        }
        obs.label_if(4, a.is_ended());
        let s = STATES[seg.then_set as usize % NSTATE];
        obs.label_if(3, &s != a.current_state());
        a.set_state(&s);
        b.set_state(&s);
        obs.label_if(5, c.desc.states[st_index(&s)].as_ref().map(|c| c.len() > 1).unwrap_or(false));
        if !same_vals(a.current_values(), b.current_values()) || a.current_state() != b.current_state() {
            return Err(format!("segment {n}: after set_state the two animators differ: {:?} vs {:?}", a.current_values(), b.current_values()));
        }
        obs.judged += 1;
    }
    Ok(())
}

#[derive(Clone, Debug, Serialize, Deserialize)]
pub struct C06LongCase {
    pub tl: TlDesc,
    /// long first step: 2^log2_long seconds
    pub log2_long: u8,
    /// number of tiny 2^-9 s steps afterwards
    pub tiny: u16,
}

fn c06_long_judge(c: &C06LongCase, obs: &mut Obs) -> Result<(), String> {
    let desc = AnimDesc { states: vec![Some(vec![c.tl.clone()]), None, None, None, None], initial_state: 0, initial_values: Vals { a: 1.0, b: 2.0, c: 3, d: 4 }, builder_order: 0 };
    let mut a = desc.build();
    let mut b = desc.build();
    let long = (1u64 << c.log2_long) as f32;
    a.advance(long);
    b.advance(long);
    let before = a.current_values().clone();
    for _ in 0..c.tiny {
        a.advance(GRID_S as f32);
    }
    b.advance((c.tiny as f64 * GRID_S) as f32);
    obs.label(0);
    let changed = !same_vals(&before, b.current_values());
    obs.label_if(1, changed);
    obs.nontrivial = changed;
    if !same_vals(a.current_values(), b.current_values()) || a.is_ended() != b.is_ended() {
        return Err(format!(
            "after a long step of {long} s, {} steps of 1/512 s vs one step of {} s give different results: {:?} (ended {}) vs {:?} (ended {})",
            c.tiny, c.tiny as f64 * GRID_S, a.current_values(), a.is_ended(), b.current_values(), b.is_ended()
        ));
    }
    obs.judged += 1;
    Ok(())
}

#[derive(Clone, Debug, Serialize, Deserialize)]
pub struct C06TrainCase {
    pub tl: TlDesc,
    pub frames: u16,
    /// frame time selector: 0 => 1/60, 1 => 1/144, 2 => 1/30, 3 => 0.016, 4 => 0.0005, 5 => 0.0009
    pub rate: u8,
    pub initial: Vals,
}

fn c06_train_judge(c: &C06TrainCase, obs: &mut Obs) -> Result<(), String> {
    let desc = AnimDesc { states: vec![Some(vec![c.tl.clone()]), None, None, None, None], initial_state: 0, initial_values: c.initial, builder_order: 0 };
    let dt: f32 = [1.0f32 / 60.0, 1.0 / 144.0, 1.0 / 30.0, 0.016, 0.0005, 0.0009, 1.0e-7, 5.0e-8][c.rate as usize % 8];
    let mut a = desc.build();
    for _ in 0..c.frames {
        a.advance(dt);
    }
    let mut b = desc.build();
    let real_sum = dt as f64 * c.frames as f64;
    b.advance(real_sum as f32);
    // both against the model at the real sum (tolerance domain): only total elapsed time matters
    let m = ModelTl::new(&c.tl);
    let unc_a = c.frames as f64 * 1.0e-9 + 1e-9;
    let unc_b = ulp32(real_sum as f32) as f64 + 1e-9;
    for i in 0..NPROP {
        if !m.animates(i) {
            continue;
        }
        let start = Some(c.initial.get(i));
        let ja = m.judge_window(i, real_sum, unc_a, start, a.current_values().get(i)).map_err(|e| format!("{} frames of {dt:?} s (sum {real_sum}): {e}", c.frames))?;
        m.judge_window(i, real_sum, unc_b, start, b.current_values().get(i)).map_err(|e| format!("single advance({real_sum}): {e}"))?;
        if ja.strict && ja.nontrivial {
            obs.nontrivial = true;
        }
        obs.label_if(1, ja.nontrivial);
        obs.judged += 1;
    }
    obs.label(0);
    Ok(())
}

pub fn c06(run: &mut Run) {
    run.assume("steps that are multiples of 2^-9 s are exactly representable both as f32 and as whole nanoseconds, so two partitions of the same interval describe exactly the same elapsed time");
    let cases = run.tier.pick(200_000, 5_000_000);
    run.prop(
        "c06_partitions",
        "proptest: animator configuration x up to 6 inter-transition intervals, each delivered to two animators under two random partitions into 1..8 exactly representable steps with zero-length steps sprinkled in; oracle: bit-identical values/is_ended/state after every interval and transition; non-trivial = partitions differ and values changed during the interval",
        &C06_LABELS,
        c06_strategy(),
        cases,
        c06_judge,
    );
    run.require_label("c06_partitions", "different_partitions", 0.5);
    run.require_label("c06_partitions", "values_changed_in_interval", 0.3);
    run.require_label("c06_partitions", "zero_steps_inserted", 0.3);
    // long-running + tiny steps
    let rep_timing = (dyadic(16, 2), prop_oneof![Just(Rep::Infinite), Just(Rep::Times(u32::MAX - 1))], any::<bool>()).prop_map(|(cycle, repeat, reverse)| Timing { cycle, delay: 0.0, repeat, reverse });
    let long = (tl_strategy_animator(rep_timing), 13u8..=18, 1u16..=600).prop_map(|(tl, log2_long, tiny)| C06LongCase { tl, log2_long, tiny });
    run.prop(
        "c06_long_running",
        "proptest: repeating timeline; one step of 2^13..2^18 s then up to 600 steps of 2^-9 s versus the same tail in one step (an f32 accumulator silently drops the tiny steps; every step is exactly representable); oracle bit-identical; non-trivial = the tail changed the values",
        &C06_LABELS,
        long,
        run.tier.pick(20_000, 500_000),
        c06_long_judge,
    );
    let train = (tl_strategy_animator(animator_timing_strategy()), 1u16..=3600, 0u8..8, vals_strategy()).prop_map(|(tl, frames, rate, initial)| C06TrainCase { tl, frames, rate, initial });
    run.prop(
        "c06_frame_trains",
        "proptest: n (<=3600) frames of 1/60, 1/144, 1/30, 0.016, 0.0005 or 0.0009 s versus one advance of the real sum; both judged against the f64 model at the real sum with tolerance n*1ns + ulp (arbitrary, not exactly representable steps); non-trivial = judged strictly inside a changing segment",
        &C06_LABELS,
        train,
        run.tier.pick(20_000, 500_000),
        c06_train_judge,
    );
    crate::fuzzdrv::campaign(run, "fz_c06", 19_200_000);
}

/// Very long histories: an interrupted animation is remembered, then other animated states are entered
/// N times in a row (N either side of 2^8 and 2^16, the widths a generation counter or index could be
/// narrowed to), then the interrupted state is entered again - a fresh blend, not a resume.
fn c05_long_histories(run: &mut Run) {
    let counts: [u32; 12] = [254, 255, 256, 257, 258, 511, 65_534, 65_535, 65_536, 65_537, 65_538, 131_072];
    run.enumerate(
        "c05_long_history",
        "state 0 (animated) advanced, interrupted by an un-animated state, then N entries into the two other animated states (with an occasional 1/512 s advance) for N in {254..258, 511, 65534..65538, 131072}, then state 0 again and a few advances; the blend/pause/resume model and the twin timelines are compared after EVERY operation as in c05_model; non-trivial = every history; every index a distinct N",
        counts.len() as u64,
        1,
        true,
        move |range, eo| {
            for idx in range {
                let n = counts[idx as usize];
                let kf = |pos: f32, a: f32, c: i32| KfDesc { pos, a: Some(a), b: None, c: Some(c), d: None, ez: None };
                let tl = |cycle: f32, a0: f32, a1: f32| TlDesc { timing: Timing { cycle, delay: 0.0, repeat: Rep::None, reverse: false }, default_ez: Ez::Linear, kfs: vec![kf(0.0, a0, 0), kf(1.0, a1, 1000)], order: 0 };
                let desc = AnimDesc {
                    states: vec![Some(vec![tl(4.0, 0.0, 64.0)]), Some(vec![tl(2.0, 10.0, 20.0)]), Some(vec![tl(8.0, -5.0, 5.0)]), None, None],
                    initial_state: 3,
                    initial_values: Vals { a: 1.0, b: 2.0, c: 3, d: 4 },
                    builder_order: 0,
                };
                let mut ops = vec![AOp::Set(0), AOp::Adv(Step::Grid(512)), AOp::Set(3)];
                for k in 0..n {
                    ops.push(AOp::Set(if k % 2 == 0 { 1 } else { 2 }));
                    if k % 1024 == 5 {
                        ops.push(AOp::Adv(Step::Grid(1)));
                    }
                }
                ops.extend([AOp::Set(0), AOp::Adv(Step::Grid(256)), AOp::Adv(Step::Grid(1024)), AOp::Set(4), AOp::Set(0), AOp::Adv(Step::Grid(512))]);
                let case = HistCase { desc, ops };
                let asserts = Asserts { c04: true, c05: true, c07: true, c08: false };
                let mut obs = Obs::default();
                if let Err(e) = run_history(&case, &asserts, &mut obs) {
                    return Err((serde_json::json!({"index": idx, "entries_into_other_animated_states": n}), format!("{n} entries into other animated states between the interruption and the return: {e}")));
                }
                eo.evaluated += obs.judged;
                eo.nontrivial += 1;
                eo.sample(|| serde_json::json!({"entries_into_other_animated_states": n, "operations": case.ops.len()}));
            }
            Ok(())
        },
    );
}

//! C03: the time -> position map (TimeScale) and the timing metadata of timelines.

use mv_core::desc::*;
use mina::prelude::*;
use mina::TimeScale;
use mina_core::time_scale::TimeScalePosition;
use mv_engine::{Obs, Run, Tier};
use mv_model::{exact32, step32, ulp32, ulps_between, Phase, Rep, Timing};
use proptest::prelude::*;
use serde::{Deserialize, Serialize};
use serde_json::json;

#[derive(Clone, Debug, Serialize, Deserialize)]
pub struct C03Case {
    pub timing: Timing,
    pub times: Vec<TimeSpec>,
}

fn c03_repeat_strategy() -> impl Strategy<Value = Rep> {
    prop_oneof![
        5 => Just(Rep::None),
        6 => prop::sample::select(vec![0u32, 1, 2, 3, 7, 100]).prop_map(Rep::Times),
        2 => prop::sample::select(vec![(1u32 << 24) - 1, 1 << 24, (1 << 24) + 1, u32::MAX - 1, u32::MAX]).prop_map(Rep::Times),
        3 => Just(Rep::Infinite),
    ]
}

pub fn c03_strategy() -> impl Strategy<Value = C03Case> {
    let timing = prop_oneof![
        // exact domain: dyadic grid
        5 => (0u32..=4).prop_flat_map(|j| {
            let den = (1u32 << j) as f32;
            ((1u32..=64).prop_map(move |m| m as f32 / den), prop_oneof![2 => Just(0.0f32), 3 => (0u32..=64).prop_map(move |n| n as f32 / den), 1 => (1u32..=16).prop_map(move |n| -(n as f32) / den)], c03_repeat_strategy(), any::<bool>())
                .prop_map(|(cycle, delay, repeat, reverse)| Timing { cycle, delay, repeat, reverse })
        }),
        5 => (cycle_strategy(), delay_strategy(), c03_repeat_strategy(), any::<bool>()).prop_map(|(cycle, delay, repeat, reverse)| Timing { cycle, delay, repeat, reverse }),
        // very short cycles (below f32::EPSILON seconds, down to 1e-30): "cycle duration > 0" is all the
        // statement asks for
        1 => (prop::sample::select(vec![2.0f32.powi(-25), 2.0f32.powi(-30), 5.0e-8, 6.0e-8, 1.0e-10, 1.0e-20, 1.0e-30, f32::MIN_POSITIVE, f32::from_bits(1), f32::from_bits(2), 1.0e-42]), prop::sample::select(vec![0.0f32, 0.0, 2.0f32.powi(-25), 1.0e-9, 1.0e-20]), c03_repeat_strategy(), any::<bool>())
            .prop_map(|(cycle, delay, repeat, reverse)| Timing { cycle, delay, repeat, reverse }),
    ];
    (timing, prop::collection::vec(timespec_strategy(), 16)).prop_map(|(timing, times)| C03Case { timing, times })
}

/// what the implementation reports, flattened
#[derive(Clone, Copy, Debug, PartialEq)]
pub struct Got {
    pub kind: u8,
    pub pos: f32,
}

pub fn got_of(p: TimeScalePosition) -> Got {
    match p {
        TimeScalePosition::NotStarted => Got { kind: 0, pos: 0.0 },
        TimeScalePosition::Active(x, _) => Got { kind: 1, pos: x },
        TimeScalePosition::Ended(x) => Got { kind: 2, pos: x },
    }
}

/// a + b computed in f64 without rounding?
fn sum_exact(a: f64, b: f64) -> bool {
    let r = a + b;
    r - a == b && r - b == a
}

/// Is the configuration inside the property's domain bound (named quantities representable)?
fn in_domain(tm: &Timing, t: f32) -> bool {
    let total = tm.total();
    let span_ok = tm.repeat.cycles().map(|n| (tm.cycle as f64 * n as f64) < f32::MAX as f64 / 2.0).unwrap_or(true);
    let s = t as f64 - tm.delay as f64;
    span_ok && (total.is_infinite() || total.abs() < f32::MAX as f64 / 2.0) && s.abs() < f32::MAX as f64 / 2.0
}

/// Judges one implementation result against the model. Returns (strictly_decided, nontrivial).
pub fn judge_position(tm: &Timing, t: f32, got: Got) -> Result<(bool, bool), String> {
    if !(got.pos >= 0.0 && got.pos <= 1.0) {
        return Err(format!("t={t:?}: position {} outside [0,1]", got.pos));
    }
    let s = t as f64 - tm.delay as f64;
    let c = tm.cycle as f64;
    let span = tm.active_span();
    // exact domain: s representable, the product cycle*(n+1) representable, remainder/ratio dyadic
    let ph = tm.phase_s(s);
    let exact = sum_exact(t as f64, -(tm.delay as f64)) && exact32(s) && (span.is_infinite() || exact32(span)) && {
        match ph {
            Phase::Active { pos, .. } => {
                // every intermediate a straightforward evaluation needs: remainder, ratio, folded ratio
                let r = s % c;
                let ratio = if r == 0.0 && s > 0.0 { 1.0 } else { r / c };
                exact32(pos) && exact32(r) && exact32(ratio) && (ratio * c == r || ratio == 1.0) && exact32(1.0 - ratio)
            }
            _ => true,
        }
    };
    let nontrivial = matches!(ph, Phase::Active { pos, .. } if pos > 0.0 && pos < 1.0);
    if exact {
        let want_kind = ph.kind();
        if got.kind != want_kind || got.pos as f64 != ph.pos() {
            return Err(format!("t={t:?} (exact domain, time since delay {s}): got kind {} position {}, model {:?}", got.kind, got.pos, ph));
        }
        return Ok((true, nontrivial));
    }
    // tolerance domain
    // an exact subtraction leaves only the rounding of the final division (and, next to the end of
    // the active span, of the product cycle x (repeats+1))
    let exact_sub = sum_exact(t as f64, -(tm.delay as f64)) && exact32(s);
    let near_end = span.is_finite() && (s - span).abs() <= 4.0 * ulp32(span as f32) as f64;
    let ds = if exact_sub && !near_end { 0.0 } else { ulp32(s as f32) as f64 + if span.is_finite() { ulp32(span as f32) as f64 } else { 0.0 } };
    let lo = tm.phase_s(s - ds);
    let hi = tm.phase_s(s + ds);
    let dp = ds / c * if tm.reverse { 2.0 } else { 1.0 } + 4.0 * 2f64.powi(-24);
    if dp > 0.25 {
        // time known too coarsely: only the range claim (already checked) is meaningful
        return Ok((false, false));
    }
    let g = got.pos as f64;
    let cyc = |p: &Phase| match p {
        Phase::NotStarted => -1i128,
        Phase::Active { cycle, .. } => *cycle as i128,
        Phase::Ended { .. } => i128::MAX - 1,
    };
    let kinds_same = lo.kind() == ph.kind() && hi.kind() == ph.kind();
    let wrap = !tm.reverse && matches!((&lo, &hi), (Phase::Active { .. }, Phase::Active { .. })) && cyc(&lo) != cyc(&hi);
    if wrap {
        // discontinuity of a non-reversing repeat inside the window: either one-sided limit
        if g >= lo.pos() - dp || g <= hi.pos() + dp {
            if got.kind != 1 {
                return Err(format!("t={t:?}: kind {} at a cycle wrap, expected Active", got.kind));
            }
            return Ok((false, nontrivial));
        }
        return Err(format!("t={t:?}: position {g} near a cycle wrap is neither >= {} nor <= {} (+-{dp:.3e})", lo.pos(), hi.pos()));
    }
    // continuous stretch: position interval spanned by the window (+ turning points)
    let mut pmin = lo.pos().min(ph.pos()).min(hi.pos());
    let mut pmax = lo.pos().max(ph.pos()).max(hi.pos());
    if tm.reverse {
        // the peak (100 %) lies inside the window only where a forward pass turns into the reverse pass
        // of the SAME cycle; the end of a reverse pass (next cycle, or Ended) passes through 0 %, not 100 %
        let turn = |a: &Phase, b: &Phase| match (a, b) {
            (Phase::Active { cycle: ca, reversing: ra, .. }, Phase::Active { cycle: cb, reversing: rb, .. }) => ca == cb && ra != rb,
            _ => false,
        };
        if turn(&lo, &hi) || turn(&lo, &ph) || turn(&ph, &hi) {
            pmax = 1.0;
        }
        if cyc(&lo) != cyc(&hi) {
            pmin = 0.0;
        }
    }
    if g < pmin - dp || g > pmax + dp {
        return Err(format!("t={t:?}: position {g} but the model gives [{pmin},{pmax}] (+-{dp:.3e}); phases {:?} / {:?} / {:?}", lo, ph, hi));
    }
    if kinds_same && got.kind != ph.kind() {
        return Err(format!("t={t:?}: phase kind {} but the model says {:?} on both sides of the rounding window", got.kind, ph));
    }
    Ok((kinds_same, nontrivial))
}

pub const C03_LABELS: [&str; 12] = ["exact_domain", "tolerance_strict", "near_boundary", "not_started", "active_interior", "ended", "reverse_falling", "cycle_ge_1", "boundary_repeat", "infinite", "outside_domain_skipped", "negative_delay"];

pub fn c03_judge(c: &C03Case, obs: &mut Obs) -> Result<(), String> {
    let tm = c.timing;
    let ts = TimeScale::new(tm.cycle, tm.delay, to_repeat(tm.repeat), tm.reverse);
    obs.label_if(8, matches!(tm.repeat, Rep::Times(n) if n >= (1 << 24) - 1));
    obs.label_if(9, tm.repeat == Rep::Infinite);
    obs.label_if(11, tm.delay < 0.0);
    // the linear probe through the real Timeline path: value of `a` == position
    let probe_desc = TlDesc {
        timing: tm,
        default_ez: Ez::Linear,
        kfs: vec![KfDesc { pos: 0.0, a: Some(0.0), b: None, c: None, d: None, ez: None }, KfDesc { pos: 1.0, a: Some(1.0), b: None, c: None, d: None, ez: None }], order: 0 };
    let probe = probe_desc.build();
    // ---- metadata, through the stand-alone time scale's own getters ...
    if ts.get_delay().to_bits() != tm.delay.to_bits() || ts.get_cycle_duration().to_bits() != tm.cycle.to_bits() || from_repeat(ts.get_repeat()) != tm.repeat {
        return Err(format!("TimeScale getters report delay {:?}, cycle {:?}, repeat {:?}; configured {:?}", ts.get_delay(), ts.get_cycle_duration(), ts.get_repeat(), tm));
    }
    // (two routes to the same number: required to agree to rounding only; each is judged against the model below)
    if !(ts.get_duration() == probe.duration() || (ts.get_duration().is_finite() && probe.duration().is_finite() && mv_model::ulps_between(ts.get_duration(), probe.duration()) <= 4)) {
        return Err(format!("TimeScale::get_duration() = {:?} but a timeline built with the same timing reports duration() = {:?} ({:?})", ts.get_duration(), probe.duration(), tm));
    }
    // ... and through a timeline
    if probe.delay().to_bits() != tm.delay.to_bits() {
        return Err(format!("delay() = {:?}, configured {:?}", probe.delay(), tm.delay));
    }
    if probe.cycle_duration().map(|x| x.to_bits()) != Some(tm.cycle.to_bits()) {
        return Err(format!("cycle_duration() = {:?}, configured {:?}", probe.cycle_duration(), tm.cycle));
    }
    if from_repeat(probe.repeat()) != tm.repeat {
        return Err(format!("repeat() = {:?}, configured {:?}", probe.repeat(), tm.repeat));
    }
    let total = tm.total();
    let dur = probe.duration();
    if total.is_infinite() {
        if dur != f32::INFINITY {
            return Err(format!("duration() = {dur:?} for an infinitely repeating timeline"));
        }
    } else if total.abs() < f32::MAX as f64 / 2.0 {
        let want = total as f32;
        // the implementation adds two rounded f32 quantities: allow the rounding of the larger
        // addend expressed in ulps of the (possibly much smaller, e.g. cancelling) sum
        let slack = 2u64.saturating_add((ulp32((tm.cycle as f64 * tm.repeat.cycles().unwrap() as f64) as f32) / ulp32(want).max(f32::MIN_POSITIVE)).ceil() as u64);
        // exact domain: count, product and sum all exactly representable -> a straightforward
        // evaluation has nothing to round, the reported duration must be exactly the configured one
        let n1 = tm.repeat.cycles().unwrap() as f64;
        let all_exact = exact32(n1) && exact32(tm.cycle as f64 * n1) && sum_exact(tm.delay as f64, tm.cycle as f64 * n1) && exact32(total);
        if all_exact && dur.to_bits() != want.to_bits() && !(dur == 0.0 && want == 0.0) {
            return Err(format!("duration() = {dur:?} but delay + cycle x (repeats+1) = {total} exactly (every quantity involved is representable) ({:?})", tm));
        }
        if !(dur.is_finite() && ulps_between(dur, want) <= slack) {
            return Err(format!("duration() = {dur:?} but delay + cycle x (repeats+1) = {total} ({:?})", tm));
        }
        // agreement with behaviour: clearly before the reported duration not terminal, clearly after terminal
        let margin = 8.0 * (ulp32(dur) as f64 + ulp32(tm.delay) as f64 + ulp32((total - tm.delay as f64) as f32) as f64);
        let after = (dur as f64 + margin) as f32;
        let before = (dur as f64 - margin) as f32;
        if in_domain(&tm, after) && after as f64 > total {
            let g = got_of(ts.get_position(after));
            if g.kind != 2 {
                return Err(format!("reported duration {dur:?} but at t={after:?} (after it) the position is still {:?}", g));
            }
        }
        if in_domain(&tm, before) && (before as f64) < total && before > tm.delay {
            let g = got_of(ts.get_position(before));
            if g.kind == 2 {
                return Err(format!("reported duration {dur:?} but at t={before:?} (before it) the position is already terminal"));
            }
        }
    } else {
        obs.label(10);
    }
    // ---- positions
    for spec in &c.times {
        let t = spec.resolve(&probe_desc);
        if !t.is_finite() || !in_domain(&tm, t) {
            obs.skipped += 1;
            obs.label(10);
            continue;
        }
        let got = got_of(ts.get_position(t));
        let (strict, nontrivial) = judge_position(&tm, t, got).map_err(|e| format!("{e} [timing {:?}, spec {:?}]", tm, spec))?;
        obs.judged += 1;
        let s = t as f64 - tm.delay as f64;
        let ph = tm.phase_s(s);
        match ph {
            Phase::NotStarted => obs.label(3),
            Phase::Active { pos, cycle, reversing } => {
                obs.label_if(4, pos > 0.0 && pos < 1.0);
                obs.label_if(6, reversing);
                obs.label_if(7, cycle >= 1);
            }
            Phase::Ended { .. } => obs.label(5),
        }
        let ex = exact32(s);
        obs.label_if(0, strict && ex);
        obs.label_if(1, strict && !ex);
        if !strict {
            obs.near += 1;
            obs.label(2);
        }
        if nontrivial || matches!(spec, TimeSpec::Boundary { .. }) {
            obs.nontrivial = true;
        }
        // the same through Timeline::update on a linear 0 -> 1 probe (the interpolation of 0 and 1 is
        // exact, so the value IS the position the timeline used): it must satisfy the same oracle.
        // It need not be bit-identical to TimeScale::get_position - a timeline may locate its position
        // more accurately than the stand-alone time scale reports it.
        let mut target = P::default();
        target.a = -7.0;
        probe.update(&mut target, t);
        judge_position(&tm, t, Got { kind: got.kind, pos: target.a }).map_err(|e| format!("through Timeline::update of a linear 0->1 probe (value {} where TimeScale::get_position reports {}): {e} [timing {:?}, spec {:?}]", target.a, got.pos, tm, spec))?;
        // metamorphic, implementation only, on exact grids: periodicity and mirror symmetry
        if let Phase::Active { cycle, .. } = ph {
            let c64 = tm.cycle as f64;
            let r = s % c64;
            if exact32(s) && exact32(r) && r != 0.0 {
                let last = tm.repeat.cycles().map(|n| n - 1).unwrap_or(u64::MAX);
                if cycle < last.min(1 << 20) {
                    let t2 = tm.delay as f64 + (s + c64);
                    if sum_exact(s, c64) && sum_exact(tm.delay as f64, s + c64) && sum_exact(t as f64, -(tm.delay as f64)) && exact32(t2) && exact32(s + c64) {
                        let g2 = got_of(ts.get_position(t2 as f32));
                        if g2.pos.to_bits() != got.pos.to_bits() {
                            return Err(format!("not periodic: position {} at t={t:?} but {} one cycle ({}) later", got.pos, g2.pos, tm.cycle));
                        }
                    }
                }
                let ratio = r / c64;
                if tm.reverse && ratio * c64 == r && exact32(ratio) && exact32(1.0 - ratio) && exact32(2.0 * ratio) {
                    let sm = s - r + (c64 - r);
                    let tmir = tm.delay as f64 + sm;
                    if sum_exact(s, -r) && sum_exact(c64, -r) && sum_exact(s - r, c64 - r) && sum_exact(tm.delay as f64, sm) && sum_exact(t as f64, -(tm.delay as f64)) && exact32(sm) && exact32(tmir) && exact32(c64 - r) {
                        let g2 = got_of(ts.get_position(tmir as f32));
                        if g2.pos.to_bits() != got.pos.to_bits() {
                            return Err(format!("not mirrored: position {} at {r} into the cycle but {} at {} into it (cycle {})", got.pos, g2.pos, c64 - r, tm.cycle));
                        }
                    }
                }
            }
        }
    }
    Ok(())
}

/// Fixed configurations for the exhaustive sweep of the time axis.
pub fn sweep_configs() -> Vec<Timing> {
    vec![
        Timing { cycle: 1.0, delay: 0.0, repeat: Rep::None, reverse: false },
        Timing { cycle: 2.5, delay: 0.75, repeat: Rep::Times(3), reverse: false },
        Timing { cycle: 0.3, delay: 0.1, repeat: Rep::Times(2), reverse: true },
        Timing { cycle: 4.0, delay: 1.0, repeat: Rep::Infinite, reverse: true },
        Timing { cycle: 0.1, delay: 0.0, repeat: Rep::Infinite, reverse: false },
        Timing { cycle: 20.0, delay: -3.0, repeat: Rep::Times(1), reverse: false },
        Timing { cycle: 1.5, delay: 2.0, repeat: Rep::None, reverse: true },
        Timing { cycle: 0.016, delay: 0.5, repeat: Rep::Times(7), reverse: false },
        Timing { cycle: 3.0, delay: 0.0, repeat: Rep::Times(u32::MAX - 1), reverse: true },
        Timing { cycle: 1000.0, delay: 250.0, repeat: Rep::Times(100), reverse: false },
    ]
}

pub fn c03(run: &mut Run) {
    run.assume("domain bound: total duration and t - delay must be finite f32 quantities (cases outside are counted as outside_domain_skipped)");
    run.assume("outside the exact domain the position is accepted within the per-case band ulp(t-delay)/cycle + 4*2^-24, either one-sided limit at a cycle wrap");
    let cases = run.tier.pick(1_000_000, 10_000_000);
    run.prop(
        "c03_random",
        "proptest: (cycle, delay incl. negative, repeat incl. 2^24+-1 and u32::MAX, reverse) x 16 TimeSpecs (exact fractions of cycles, +-2 ulp around every phase boundary, keyframe-free far times); oracle: f64 phase model (equality in the exact domain, band otherwise), position in [0,1], metadata == configuration, duration consistent with the first terminal time, linear probe through Timeline::update == position, periodicity and mirror symmetry on exact grids; non-trivial = Active with 0<pos<1 or a boundary time",
        &C03_LABELS,
        c03_strategy(),
        cases,
        c03_judge,
    );
    for (l, f) in [("exact_domain", 0.3), ("tolerance_strict", 0.3), ("not_started", 0.2), ("active_interior", 0.5), ("ended", 0.2), ("reverse_falling", 0.1), ("cycle_ge_1", 0.2), ("boundary_repeat", 0.03), ("infinite", 0.1)] {
        run.require_label("c03_random", l, f);
    }
    crate::fuzzdrv::campaign(run, "fz_c03", 38_400_000);
    // exhaustive / strided sweep of the f32 time axis
    let configs = sweep_configs();
    let stride: u64 = if run.tier == Tier::Quick { 64 } else { 1 };
    let ncfg = if run.tier == Tier::Quick { configs.len() } else { configs.len() };
    let per: u64 = (1u64 << 32) / stride;
    let seed = run.seed;
    run.enumerate(
        "c03_sweep",
        &format!(
            "every {}f32 bit pattern of the time axis (finite values, both signs) for {} fixed configurations through TimeScale::get_position, judged by the same oracle; offset within the stride is derived from VERIF_SEED; non-trivial = finite time with Active 0<pos<1; each (config, bit pattern) is distinct by construction",
            if stride == 1 { "".to_string() } else { format!("{stride}th ") },
            ncfg
        ),
        per * ncfg as u64,
        1 << 20,
        stride == 1,
        |range, eo| {
            for idx in range {
                let cfg = (idx / per) as usize;
                let tm = configs[cfg];
                let bits = ((idx % per) * stride + (seed.wrapping_mul(0x9E37) + cfg as u64) % stride) as u32;
                let t = f32::from_bits(bits);
                if !t.is_finite() {
                    eo.skipped += 1;
                    continue;
                }
                let ts = TimeScale::new(tm.cycle, tm.delay, to_repeat(tm.repeat), tm.reverse);
                if !in_domain(&tm, t) {
                    eo.skipped += 1;
                    continue;
                }
                let got = got_of(ts.get_position(t));
                match judge_position(&tm, t, got) {
                    Ok((strict, nt)) => {
                        eo.evaluated += 1;
                        if nt {
                            eo.nontrivial += 1;
                            if bits % 0x0100_0000 == 0x0012_3456 % stride as u32 {
                                eo.sample(|| json!({"config": tm, "t": t, "kind": got.kind, "position": got.pos}));
                            }
                        }
                        if !strict {
                            eo.near += 1;
                        }
                    }
                    Err(d) => return Err((json!({"index": idx, "config": tm, "t_bits": bits, "t": t}), d)),
                }
            }
            Ok(())
        },
    );
    // +-64 ulps around every phase boundary of the sweep configurations (quick tier's stride would miss them)
    let mut pts: Vec<(usize, f32)> = vec![];
    for (ci, tm) in configs.iter().enumerate() {
        let kmax = tm.repeat.cycles().unwrap_or(8).min(8);
        let mut bases = vec![tm.delay as f64, 0.0];
        for k in 0..=kmax {
            bases.push(tm.delay as f64 + tm.cycle as f64 * k as f64);
            bases.push(tm.delay as f64 + tm.cycle as f64 * (k as f64 + 0.5));
        }
        if tm.total().is_finite() {
            bases.push(tm.total());
        }
        for b in bases {
            for u in -64..=64 {
                pts.push((ci, step32(b as f32, u)));
            }
        }
    }
    let n = pts.len() as u64;
    run.enumerate(
        "c03_boundary_neighbourhoods",
        "all floats within 64 ulps of every phase boundary (delay, every cycle start/middle/end up to 8 cycles, total) of the sweep configurations; same oracle; exhaustive over that set",
        n,
        256,
        true,
        |range, eo| {
            for idx in range {
                let (ci, t) = pts[idx as usize];
                let tm = configs[ci];
                let ts = TimeScale::new(tm.cycle, tm.delay, to_repeat(tm.repeat), tm.reverse);
                let got = got_of(ts.get_position(t));
                match judge_position(&tm, t, got) {
                    Ok((strict, _)) => {
                        eo.evaluated += 1;
                        eo.nontrivial += 1;
                        if !strict {
                            eo.near += 1;
                        }
                        if idx % 997 == 0 {
                            eo.sample(|| json!({"config": tm, "t": t, "kind": got.kind, "position": got.pos}));
                        }
                    }
                    Err(d) => return Err((json!({"index": idx, "config": tm, "t": t}), d)),
                }
            }
            Ok(())
        },
    );
}

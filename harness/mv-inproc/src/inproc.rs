//! In-process tier of C15: the macro's own parser/expander (`macros/src/fn_timeline.rs`, included by
//! path, running on proc-macro2's fallback implementation) is fed generated sentences directly.
//! Its expansion is read back as a builder method chain and compared with the documented reading;
//! ill-formed mutants must make the parser or the expander return an error.

#![allow(dead_code, unused_imports)]

#[path = "/repo/macros/src/fn_timeline.rs"]
mod fn_timeline;

use mv_gen::c15::*;
use mv_core::desc::{Ez, TlDesc};
use mv_model::{ulps_between, Rep};
use syn::parse::{Parse, ParseStream};

struct Input {
    ty: syn::Type,
    cfg: fn_timeline::TimelineOrMergeConfig,
}
impl Parse for Input {
    fn parse(input: ParseStream) -> syn::Result<Self> {
        Ok(Input { ty: input.parse()?, cfg: input.parse()? })
    }
}

/// Runs the macro's parser and expander on `P <text>`; Ok(expansion) or Err(message).
pub fn expand(text: &str) -> Result<proc_macro2::TokenStream, String> {
    let src = format!("P {text}");
    let ts: proc_macro2::TokenStream = src.parse().map_err(|e| format!("lex error: {e}"))?;
    let input: Input = syn::parse2(ts).map_err(|e| format!("parse error: {e}"))?;
    let syn::Type::Path(tp) = &input.ty else { return Err("type is not a path".into()) };
    fn_timeline::expand_timeline_or_merge(&tp.path, &input.cfg).map_err(|e| format!("expand error: {e}"))
}

#[derive(Debug, Default, Clone)]
pub struct ReadKf {
    pub pos: f32,
    pub fields: Vec<(String, f64)>,
}

#[derive(Debug, Default, Clone)]
pub struct ReadTl {
    pub duration: Option<f32>,
    pub delay: Option<f32>,
    pub repeat: Option<Rep>,
    pub reverse: bool,
    pub easing: Option<String>,
    pub kfs: Vec<ReadKf>,
    pub built: bool,
}

fn lit_f64(e: &syn::Expr) -> Result<f64, String> {
    match e {
        syn::Expr::Lit(l) => match &l.lit {
            syn::Lit::Float(f) => f.base10_parse::<f64>().map_err(|e| e.to_string()),
            syn::Lit::Int(i) => i.base10_parse::<f64>().map_err(|e| e.to_string()),
            _ => Err("unexpected literal".into()),
        },
        syn::Expr::Unary(u) if matches!(u.op, syn::UnOp::Neg(_)) => lit_f64(&u.expr).map(|v| -v),
        syn::Expr::Paren(p) => lit_f64(&p.expr),
        syn::Expr::Group(g) => lit_f64(&g.expr),
        other => Err(format!("not a numeric literal: {}", quote::quote!(#other))),
    }
}

fn lit_f32_exact(e: &syn::Expr) -> Result<f32, String> {
    // the expander emits f32 literals (e.g. `0.29999998f32`): read them back as f32
    match e {
        syn::Expr::Lit(l) => match &l.lit {
            syn::Lit::Float(f) => f.base10_parse::<f32>().map_err(|e| e.to_string()),
            syn::Lit::Int(i) => i.base10_parse::<f32>().map_err(|e| e.to_string()),
            _ => Err("unexpected literal".into()),
        },
        syn::Expr::Group(g) => lit_f32_exact(&g.expr),
        other => Err(format!("not a literal: {}", quote::quote!(#other))),
    }
}

fn read_keyframe(e: &syn::Expr) -> Result<ReadKf, String> {
    // P :: keyframe (pos) . a (..) . b (..)
    let mut fields = vec![];
    let mut cur = e;
    loop {
        match cur {
            syn::Expr::MethodCall(m) => {
                if m.args.len() != 1 {
                    return Err(format!("setter {} with {} args", m.method, m.args.len()));
                }
                fields.push((m.method.to_string(), lit_f64(&m.args[0])?));
                cur = &m.receiver;
            }
            syn::Expr::Call(c) => {
                let f = &c.func;
                let name = quote::quote!(#f).to_string().replace(' ', "");
                if name != "P::keyframe" || c.args.len() != 1 {
                    return Err(format!("unexpected keyframe constructor {name}"));
                }
                fields.reverse();
                return Ok(ReadKf { pos: lit_f32_exact(&c.args[0])?, fields });
            }
            syn::Expr::Group(g) => cur = &g.expr,
            other => return Err(format!("unexpected keyframe expression {}", quote::quote!(#other))),
        }
    }
}

fn read_chain(e: &syn::Expr) -> Result<ReadTl, String> {
    let mut calls: Vec<(&syn::Ident, &syn::punctuated::Punctuated<syn::Expr, syn::Token![,]>)> = vec![];
    let mut cur = e;
    loop {
        match cur {
            syn::Expr::MethodCall(m) => {
                calls.push((&m.method, &m.args));
                cur = &m.receiver;
            }
            syn::Expr::Call(c) => {
                let f = &c.func;
                let name = quote::quote!(#f).to_string().replace(' ', "");
                if name != "P::timeline" {
                    return Err(format!("chain does not start at P::timeline(): {name}"));
                }
                break;
            }
            syn::Expr::Group(g) => cur = &g.expr,
            other => return Err(format!("unexpected expression {}", quote::quote!(#other))),
        }
    }
    calls.reverse();
    let mut out = ReadTl::default();
    for (name, args) in calls {
        if out.built {
            return Err("call after build()".into());
        }
        match name.to_string().as_str() {
            "duration_seconds" => out.duration = Some(lit_f32_exact(&args[0])?),
            "delay_seconds" => out.delay = Some(lit_f32_exact(&args[0])?),
            "default_easing" => {
                let a = &args[0];
                out.easing = Some(quote::quote!(#a).to_string().replace(' ', ""));
            }
            "repeat" => {
                let a = &args[0];
                let t = quote::quote!(#a).to_string().replace(' ', "");
                out.repeat = Some(if t == "::mina::Repeat::Infinite" {
                    Rep::Infinite
                } else if let Some(rest) = t.strip_prefix("::mina::Repeat::Times(") {
                    let n = rest.trim_end_matches(')').trim_end_matches("u32");
                    Rep::Times(n.parse::<u32>().map_err(|e| format!("repeat count {n}: {e}"))?)
                } else {
                    return Err(format!("unexpected repeat argument {t}"));
                });
            }
            "reverse" => {
                let a = &args[0];
                if quote::quote!(#a).to_string() != "true" {
                    return Err("reverse(false)?".into());
                }
                out.reverse = true;
            }
            "keyframe" => out.kfs.push(read_keyframe(&args[0])?),
            "build" => out.built = true,
            other => return Err(format!("unexpected builder call {other}")),
        }
    }
    Ok(out)
}

/// Reads an expansion: one chain, or `::mina::MergedTimeline::of([chain, chain, ...])`.
pub fn read_expansion(ts: proc_macro2::TokenStream) -> Result<Vec<ReadTl>, String> {
    let e: syn::Expr = syn::parse2(ts.clone()).map_err(|e| format!("expansion is not an expression: {e}: {ts}"))?;
    if let syn::Expr::Call(c) = &e {
        let f = &c.func;
        let name = quote::quote!(#f).to_string().replace(' ', "");
        if name == "::mina::MergedTimeline::of" {
            let syn::Expr::Array(arr) = &c.args[0] else { return Err("MergedTimeline::of without array".into()) };
            return arr.elems.iter().map(read_chain).collect();
        }
    }
    Ok(vec![read_chain(&e)?])
}

fn close(a: f32, real: f64, ulps: u64) -> bool {
    let b = real as f32;
    a == b || ulps_between(a, b) <= ulps
}

/// Compares what the macro emitted with the documented reading of the sentence.
pub fn compare(read: &ReadTl, s: &Sentence) -> Result<(), String> {
    let want: TlDesc = reading(s, None);
    let mut has_dur = false;
    let mut has_delay = false;
    for a in &s.args {
        match a {
            Arg::Duration { .. } => has_dur = true,
            Arg::Delay { .. } => has_delay = true,
            _ => {}
        }
    }
    if !read.built {
        return Err("expansion does not end in build()".into());
    }
    match (read.duration, has_dur) {
        (Some(d), true) => {
            if !close(d, want.timing.cycle as f64, 2) {
                return Err(format!("duration_seconds({d:?}) but the sentence says {:?} s", want.timing.cycle));
            }
        }
        (None, false) => {}
        (a, b) => return Err(format!("duration setter present: {:?}, duration argument present: {b}", a)),
    }
    match (read.delay, has_delay) {
        (Some(d), true) => {
            if !close(d, want.timing.delay as f64, 2) {
                return Err(format!("delay_seconds({d:?}) but the sentence says {:?} s", want.timing.delay));
            }
        }
        (None, false) => {}
        (a, b) => return Err(format!("delay setter present: {:?}, `after` argument present: {b}", a)),
    }
    let want_rep = if want.timing.repeat == Rep::None { None } else { Some(want.timing.repeat) };
    if read.repeat != want_rep {
        return Err(format!("repeat {:?} but the sentence says {:?}", read.repeat, want_rep));
    }
    if read.reverse != want.timing.reverse {
        return Err(format!("reverse {} but the sentence says {}", read.reverse, want.timing.reverse));
    }
    let want_ez = s.args.iter().find_map(|a| if let Arg::Easing(e) = a { Some(format!("Easing::{:?}", e)) } else { None });
    if read.easing != want_ez {
        return Err(format!("default_easing {:?} but the sentence says {:?}", read.easing, want_ez));
    }
    let kfs: Vec<&KfArg> = s.args.iter().filter_map(|a| if let Arg::Kf(k) = a { Some(k) } else { None }).collect();
    if kfs.len() != read.kfs.len() {
        return Err(format!("{} keyframes emitted for {} written", read.kfs.len(), kfs.len()));
    }
    for (n, (r, k)) in read.kfs.iter().zip(kfs.iter()).enumerate() {
        let real_pos = match &k.pos {
            KfPos::From => 0.0,
            KfPos::To => 1.0,
            KfPos::Pct(l) => l.value / 100.0,
        };
        if !close(r.pos, real_pos, 2) {
            return Err(format!("keyframe {n}: position {:?} but the sentence says {real_pos}", r.pos));
        }
        let want_fields: Vec<(String, f64)> = k.fields.iter().map(|(p, v)| (mv_core::desc::PROP_NAMES[*p].to_string(), *v)).collect();
        if r.fields != want_fields {
            return Err(format!("keyframe {n}: fields {:?} but the sentence says {:?}", r.fields, want_fields));
        }
    }
    Ok(())
}

pub fn check_case(c: &C15Case) -> Result<(), String> {
    let text = print_behavior(&c.sentences, c.bracket_single);
    let ts = expand(&text).map_err(|e| format!("well-formed sentence rejected: `timeline!(P {text})`: {e}"))?;
    let read = read_expansion(ts.clone()).map_err(|e| format!("UNREADABLE {e}"))?;
    if read.len() != c.sentences.len() {
        return Err(format!("`timeline!(P {text})`: {} member timelines emitted for {} written", read.len(), c.sentences.len()));
    }
    for (r, s) in read.iter().zip(c.sentences.iter()) {
        compare(r, s).map_err(|e| format!("`timeline!(P {text})` expands to `{ts}`: {e}"))?;
    }
    Ok(())
}

pub fn check_mutant(m: &Mutant) -> Result<(), String> {
    match expand(&m.text) {
        Err(_) => Ok(()),
        Ok(ts) => Err(format!("ill-formed sentence ({}) accepted: `timeline!(P {})` expands to `{ts}`", m.kind, m.text)),
    }
}

//! `inproc C15 quick|thorough` (child of `gen C15`; numbers go to $INPROC_STATS) /
//! `inproc replay C15 <file>`: in-process tier of C15, see inproc.rs.

extern crate proc_macro;

mod inproc;

use mv_engine::{Obs, Run};
use mv_gen::c15::*;
use proptest::prelude::*;
use serde_json::json;

fn main() {
    let args: Vec<String> = std::env::args().skip(1).collect();
    let Some(mut run) = Run::from_args(&args) else {
        eprintln!("usage: inproc C15 [quick|thorough] | inproc replay C15 <file>");
        std::process::exit(2);
    };
    mv_engine::quiet_panics();
    let unreadable = std::sync::atomic::AtomicU64::new(0);
    run.prop_factory(
        "c15_inprocess",
        INPROC_RULE,
        &["merged_list", "unreadable_expansion"],
        c15_strategy,
        run.tier.pick(300_000, 3_000_000),
        |c: &C15Case, obs: &mut Obs| {
            obs.label_if(0, c.sentences.len() > 1);
            match inproc::check_case(c) {
                Err(e) if e.starts_with("UNREADABLE") => {
                    unreadable.fetch_add(1, std::sync::atomic::Ordering::Relaxed);
                    obs.label(1);
                    obs.skipped += 1;
                    Ok(())
                }
                r => {
                    obs.judged += 1;
                    obs.nontrivial = nontrivial(c);
                    r
                }
            }
        },
    );
    let unreadable = unreadable.load(std::sync::atomic::Ordering::Relaxed);
    run.prop_factory(
        "c15_inprocess_rejection",
        INPROC_REJ_RULE,
        &[],
        || {
            (sentence_strategy(false, false), any::<u16>(), any::<u16>()).prop_map(|(s, sel, pick)| {
                let ms = mutants(&s, sel);
                ms[mv_engine::pick_idx(pick, ms.len())].clone()
            })
        },
        run.tier.pick(300_000, 3_000_000),
        |m: &Mutant, obs: &mut Obs| {
            obs.judged += 1;
            obs.nontrivial = true;
            inproc::check_mutant(m)
        },
    );
    if run.is_replay() {
        std::process::exit(run.finish());
    }
    if let Ok(p) = std::env::var("INPROC_STATS") {
        let v = json!({
            "c15_inprocess": run.sub_summary("c15_inprocess"),
            "c15_inprocess_rejection": run.sub_summary("c15_inprocess_rejection"),
            "merged_list_fraction": run.label_fraction("c15_inprocess", "merged_list"),
            "unreadable": unreadable,
        });
        let _ = std::fs::write(p, serde_json::to_string(&v).unwrap());
    }
    if run.violation_count() > 0 {
        std::process::exit(1);
    }
    if unreadable > 0 {
        eprintln!("c15_inprocess: {unreadable} expansions could not be read back as a builder chain (inconclusive, not a violation)");
        std::process::exit(2);
    }
    std::process::exit(0);
}

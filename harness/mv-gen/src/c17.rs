//! C17: `derive(Animate)` for a generated family of struct shapes.
//!
//! The generated program defines the structs, builds timelines through the derived API from data
//! read at run time and prints the raw observations; this process judges them against the dynamic
//! reference model. A second generated file probes setters that must NOT exist (one per line).

use crate::c15::Outcome;
use crate::harness::*;
use mv_core::desc::Ez;
use mv_core::oracle::ModelTl;
use mv_engine::{Run, Tier, Violation};
use mv_model::{ulps_between, Rep, Timing};
use proptest::prelude::*;
use serde::{Deserialize, Serialize};
use serde_json::json;

#[derive(Clone, Copy, Debug, Serialize, Deserialize, PartialEq, Eq, Hash)]
pub enum Ty {
    F32,
    F64,
    U8,
    I16,
    I32,
    U32,
}
impl Ty {
    fn name(&self) -> &'static str {
        match self {
            Ty::F32 => "f32",
            Ty::F64 => "f64",
            Ty::U8 => "u8",
            Ty::I16 => "i16",
            Ty::I32 => "i32",
            Ty::U32 => "u32",
        }
    }
    fn is_int(&self) -> bool {
        !matches!(self, Ty::F32 | Ty::F64)
    }
}

#[derive(Clone, Copy, Debug, Serialize, Deserialize, PartialEq)]
pub enum Vis {
    Priv,
    Pub,
    PubCrate,
}
impl Vis {
    fn text(&self) -> &'static str {
        match self {
            Vis::Priv => "",
            Vis::Pub => "pub ",
            Vis::PubCrate => "pub(crate) ",
        }
    }
}

#[derive(Clone, Debug, Serialize, Deserialize)]
pub struct Field {
    pub ty: Ty,
    pub marked: bool,
    pub vis: Vis,
    /// put a doc comment / another attribute in front of the marker
    pub decorated: bool,
}

#[derive(Clone, Debug, Serialize, Deserialize)]
pub struct KfSet {
    pub timing: Timing,
    pub default_ez: Ez,
    /// (position, value per *animated* field or None, easing)
    pub kfs: Vec<(f32, Vec<Option<f64>>, Option<Ez>)>,
    pub times: Vec<f32>,
    pub start: Option<Vec<f64>>,
    /// order in which the builder's setters are called (the result must not depend on it)
    #[serde(default)]
    pub order: u8,
    /// keyframe_from probe: position and the value of every field of the target
    pub from_pos: f32,
    pub from_vals: Vec<f64>,
}

#[derive(Clone, Debug, Serialize, Deserialize)]
pub struct Shape {
    pub fields: Vec<Field>,
    pub struct_vis: Vis,
    pub remote: bool,
    pub nested: bool,
    /// 0 = fields are called x0, x1, ...; 1 = fields carry names that also occur as local variables or
    /// struct fields inside the code the derive generates (normalized_time, frame_index, target, ...)
    #[serde(default)]
    pub names: u8,
    /// the (local) struct has a hand-written `impl Default` with non-zero values instead of the derive:
    /// the implicit 0 % value of a property is still the field TYPE's default
    #[serde(default)]
    pub manual_default: bool,
    pub sets: Vec<KfSet>,
}

const HOSTILE: [&str; 12] = ["normalized_time", "frame_index", "time", "position", "values", "enable_start_override", "timescale", "boundary_times", "data", "value", "index", "keyframe"];

/// the field name used in generated source for field k of a shape
fn fname(names: u8, k: usize) -> String {
    if names == 0 {
        format!("x{k}")
    } else if names == 2 {
        // a leading underscore says nothing about whether a field is animated (every other field gets one)
        if k % 2 == 1 { format!("_f{k}") } else { format!("x{k}") }
    } else if k < HOSTILE.len() {
        HOSTILE[k].to_string()
    } else {
        format!("{}_{}", HOSTILE[k % HOSTILE.len()], k / HOSTILE.len())
    }
}

/// renames x<k> -> fname(k) in a chunk of generated source
fn rename_fields(chunk: &str, names: u8) -> String {
    if names == 0 {
        return chunk.to_string();
    }
    let b = chunk.as_bytes();
    let mut out = String::with_capacity(chunk.len() + 64);
    let mut i = 0;
    while i < b.len() {
        let word_before = i > 0 && (b[i - 1].is_ascii_alphanumeric() || b[i - 1] == b'_');
        if b[i] == b'x' && !word_before && i + 1 < b.len() && b[i + 1].is_ascii_digit() {
            let mut j = i + 1;
            while j < b.len() && b[j].is_ascii_digit() {
                j += 1;
            }
            let word_after = j < b.len() && (b[j].is_ascii_alphanumeric() || b[j] == b'_');
            if !word_after {
                out += &fname(names, chunk[i + 1..j].parse::<usize>().unwrap());
                i = j;
                continue;
            }
        }
        out.push(b[i] as char);
        i += 1;
    }
    out
}

impl Shape {
    pub fn animated(&self) -> Vec<usize> {
        let marked: Vec<usize> = self.fields.iter().enumerate().filter(|(_, f)| f.marked).map(|(i, _)| i).collect();
        if marked.is_empty() { (0..self.fields.len()).collect() } else { marked }
    }
}

fn value_for(ty: Ty) -> BoxedStrategy<f64> {
    // zero (the type's Default) is a value like any other and must be copied / animated as such
    prop_oneof![1 => Just(0.0f64).boxed(), 6 => value_for_nonzero(ty)].boxed()
}

fn value_for_nonzero(ty: Ty) -> BoxedStrategy<f64> {
    match ty {
        Ty::F32 | Ty::F64 => prop_oneof![(-400i32..=400).prop_map(|v| v as f64 / 4.0), (-1.0e4f32..1.0e4).prop_map(|v| v as f64)].boxed(),
        Ty::U8 => (0u32..=255).prop_map(|v| v as f64).boxed(),
        Ty::I16 => (-32768i32..=32767).prop_map(|v| v as f64).boxed(),
        Ty::I32 => prop_oneof![(-1000i32..=1000).prop_map(|v| v as f64), (-(1i32 << 24)..=(1 << 24)).prop_map(|v| v as f64)].boxed(),
        Ty::U32 => prop_oneof![(0u32..=1000).prop_map(|v| v as f64), (0u32..=(1 << 24)).prop_map(|v| v as f64)].boxed(),
    }
}

fn ez17() -> impl Strategy<Value = Ez> {
    prop_oneof![3 => Just(Ez::Linear), 4 => prop::sample::select(vec![Ez::InQuad, Ez::OutCubic, Ez::InOutSine, Ez::Ease, Ez::OutExpo, Ez::InCirc, Ez::InOut])]
}

fn shape_strategy() -> impl Strategy<Value = Shape> {
    let field = (prop::sample::select(vec![Ty::F32, Ty::F64, Ty::U8, Ty::I16, Ty::I32, Ty::U32]), any::<bool>(), prop::sample::select(vec![Vis::Priv, Vis::Pub, Vis::PubCrate]), prop::bool::weighted(0.2))
        .prop_map(|(ty, marked, vis, decorated)| Field { ty, marked, vis, decorated });
    (prop_oneof![40 => prop::collection::vec(field.clone(), 1..=6), 1 => prop::collection::vec(field.clone(), 33..=36), 1 => prop::collection::vec(field, 65..=68)], prop::sample::select(vec![Vis::Priv, Vis::Pub, Vis::PubCrate]), prop::bool::weighted(0.3), any::<bool>(), prop::bool::weighted(0.15), prop_oneof![6 => Just(0u8), 2 => Just(1u8), 1 => Just(2u8)]).prop_flat_map(|(mut fields, struct_vis, remote, nested, none_marked, names)| {
        if none_marked {
            for f in &mut fields {
                f.marked = false;
            }
        }
        if remote {
            // the proxy's fields are matched by name against the (public) target fields
            for f in &mut fields {
                f.decorated = false;
            }
        }
        let shape0 = Shape { fields: fields.clone(), struct_vis, remote, nested, names, manual_default: names == 0 && !remote && fields.len() % 3 == 1, sets: vec![] };
        let anim = shape0.animated();
        let tys: Vec<Ty> = fields.iter().map(|f| f.ty).collect();
        let anim_tys: Vec<Ty> = anim.iter().map(|i| tys[*i]).collect();
        let kf = {
            let anim_tys = anim_tys.clone();
            (mv_core::desc::pos_strategy(), prop::option::weighted(0.4, ez17())).prop_flat_map(move |(pos, ez)| {
                let vals: Vec<BoxedStrategy<Option<f64>>> = anim_tys.iter().map(|t| prop::option::weighted(0.6, value_for(*t)).boxed()).collect();
                vals.prop_map(move |v| (pos, v, ez))
            })
        };
        let all_vals: Vec<BoxedStrategy<f64>> = tys.iter().map(|t| value_for(*t)).collect();
        let anim_vals: Vec<BoxedStrategy<f64>> = anim_tys.iter().map(|t| value_for(*t)).collect();
        let timing = (mv_core::desc::cycle_strategy(), prop_oneof![2 => Just(0.0f32), 1 => mv_core::desc::dyadic(16, 2)], prop_oneof![3 => Just(Rep::None), 2 => (0u32..=3).prop_map(Rep::Times), 1 => Just(Rep::Infinite)], any::<bool>())
            .prop_map(|(cycle, delay, repeat, reverse)| Timing { cycle, delay, repeat, reverse });
        let set = (timing, ez17(), prop::collection::vec(kf, 0..=5), prop::collection::vec(0.0f32..3.0, 10), prop::option::weighted(0.3, anim_vals), mv_core::desc::pos_strategy(), all_vals, 0u8..5).prop_map(
            |(timing, default_ez, kfs, rel_times, start, from_pos, from_vals, order)| {
                let mut times: Vec<f32> = rel_times.iter().map(|r| timing.delay + timing.cycle * r).collect();
                times.push(0.0);
                times.push(timing.delay + timing.cycle * 0.5);
                KfSet { timing, default_ez, kfs, times, start, order, from_pos, from_vals }
            },
        );
        let shape = shape0.clone();
        prop::collection::vec(set, 4).prop_map(move |sets| Shape { sets, ..shape.clone() })
    })
}

fn field_decl(f: &Field, idx: usize, with_attr: bool, force_pub: bool) -> String {
    let mut s = String::new();
    if with_attr {
        // other attributes (doc comment = name-value attribute, allow = list attribute) may precede
        // the marker, and may sit on fields that are NOT marked
        // ... or follow it, or surround it: the marker counts wherever it stands in the attribute list
        let marker = if f.marked { "    #[animate]\n" } else { "" };
        if f.decorated {
            match idx % 3 {
                0 => s += &format!("    /// field {idx}\n    #[allow(dead_code)]\n{marker}"),
                1 => s += &format!("{marker}    /// field {idx}\n    #[allow(dead_code)]\n"),
                _ => s += &format!("    /// field {idx}\n{marker}    #[allow(dead_code)]\n"),
            }
        } else {
            s += marker;
        }
    }
    s += &format!("    {}x{idx}: {},\n", if force_pub { "pub " } else { f.vis.text() }, f.ty.name());
    s
}

/// module text for shape i (struct definitions only), and the names (module path, proxy type, target type)
fn shape_defs(sh: &Shape, i: usize) -> String {
    let mut s = String::new();
    if sh.remote {
        s += &format!("    pub mod ext {{\n        #[derive(Clone, Debug, Default, PartialEq)]\n        pub struct T{i} {{\n");
        for (k, f) in sh.fields.iter().enumerate() {
            s += &format!("        pub x{k}: {},\n", f.ty.name());
        }
        s += "        }\n    }\n";
        s += &format!("    use self::ext::T{i};\n    #[derive(Animate)]\n    #[animate(remote = \"T{i}\")]\n    {}struct S{i} {{\n", sh.struct_vis.text());
        for (k, f) in sh.fields.iter().enumerate() {
            s += &field_decl(f, k, true, false);
        }
        s += "    }\n";
    } else {
        s += &format!("    #[derive(Animate, Clone, Debug, {}PartialEq)]\n    {}struct S{i} {{\n", if sh.manual_default { "" } else { "Default, " }, sh.struct_vis.text());
        for (k, f) in sh.fields.iter().enumerate() {
            s += &field_decl(f, k, true, false);
        }
        s += &format!("    }}\n    #[allow(dead_code)] type T{i} = S{i};\n");
        if sh.manual_default {
            let inits: String = sh.fields.iter().enumerate().map(|(k, f)| format!("x{k}: {} as {}", 3 + k, f.ty.name())).collect::<Vec<_>>().join(", ");
            s += &format!("    impl Default for S{i} {{ fn default() -> Self {{ S{i} {{ {inits} }} }} }}\n");
        }
    }
    s
}

fn program(shapes: &[Shape]) -> String {
    let mut src = String::from(
        "// generated by mv-gen (C17 positive batch)\n#![allow(unused_imports, unused_mut, dead_code, unused_variables, clippy::all)]\nuse serde_json::{json, Value};\n\nfn rep(v: &Value) -> mina::Repeat { match v { Value::String(s) if s == \"None\" => mina::Repeat::None, Value::String(_) => mina::Repeat::Infinite, o => mina::Repeat::Times(o[\"Times\"].as_u64().unwrap() as u32) } }\nfn ez(v: &Value) -> mina::Easing { let e: mv_core::desc::Ez = serde_json::from_value(v.clone()).unwrap(); e.to_mina() }\nfn rep_out(r: mina::Repeat) -> Value { match r { mina::Repeat::None => json!(\"None\"), mina::Repeat::Infinite => json!(\"Infinite\"), mina::Repeat::Times(n) => json!({\"Times\": n}) } }\n\n",
    );
    for (i, sh) in shapes.iter().enumerate() {
        let anim = sh.animated();
        let chunk_start = src.len();
        src += &format!("mod shape_{i} {{\n    use mina::prelude::*;\n    use serde_json::{{json, Value}};\n    use super::{{rep, ez, rep_out}};\n");
        src += &shape_defs(sh, i);
        // target construction with sentinels
        let sentinel = |k: usize, ty: Ty| -> String {
            match ty {
                Ty::F32 => format!("{}.5f32", 12345 + k),
                Ty::F64 => format!("{}.25f64", 54321 + k),
                Ty::U8 => format!("{}u8", 77 + k),
                Ty::I16 => format!("{}i16", -1234 - k as i32),
                Ty::I32 => format!("{}i32", -7_654_321 - k as i32),
                Ty::U32 => format!("{}u32", 7_654_321 + k),
            }
        };
        let ctor_sent: String = sh.fields.iter().enumerate().map(|(k, f)| format!("x{k}: {}", sentinel(k, f.ty))).collect::<Vec<_>>().join(", ");
        let dump: String = sh.fields.iter().enumerate().map(|(k, _)| format!("t.x{k} as f64")).collect::<Vec<_>>().join(", ");
        src += &format!("    fn fresh() -> T{i} {{ T{i} {{ {ctor_sent} }} }}\n    fn dump(t: &T{i}) -> Vec<f64> {{ vec![{dump}] }}\n");
        src += &format!("    pub fn run(sets: &Value) -> Value {{\n        let mut out = vec![];\n        for set in sets.as_array().unwrap() {{\n            let tm = &set[\"timing\"];\n            let (cy, de, rp, rv) = (tm[\"cycle\"].as_f64().unwrap() as f32, tm[\"delay\"].as_f64().unwrap() as f32, rep(&tm[\"repeat\"]), tm[\"reverse\"].as_bool().unwrap());\n            let order = set[\"order\"].as_u64().unwrap_or(0);\n            // the order of the builder's setter calls must not matter: five different orders, keyframes before, between or after; order 4 first sets throw-away values that the later calls must replace\n            let mut b = S{i}::timeline();\n            b = match order {{ 0 => b.duration_seconds(cy).delay_seconds(de).repeat(rp).reverse(rv).default_easing(ez(&set[\"default_ez\"])), 2 => b.delay_seconds(de), 3 => b.repeat(rp).reverse(rv).duration_seconds(cy), 4 => b.duration_seconds(cy * 3.0 + 1.0).delay_seconds(5.0).reverse(!rv).repeat(mina::Repeat::Times(5)).default_easing(mina::Easing::OutCirc), _ => b }};\n            for kf in set[\"kfs\"].as_array().unwrap() {{\n                let mut k = S{i}::keyframe(kf[0].as_f64().unwrap() as f32);\n");
        for (j, fi) in anim.iter().enumerate() {
            src += &format!("                if let Some(v) = kf[1][{j}].as_f64() {{ k = k.x{fi}(v as {}); }}\n", sh.fields[*fi].ty.name());
        }
        src += "                if !kf[2].is_null() { k = k.easing(ez(&kf[2])); }\n                b = b.keyframe(k);\n            }\n            b = match order { 1 | 4 => b.default_easing(ez(&set[\"default_ez\"])).reverse(rv).repeat(rp).delay_seconds(de).duration_seconds(cy), 2 => b.duration_seconds(cy).default_easing(ez(&set[\"default_ez\"])).repeat(rp).reverse(rv), 3 => b.delay_seconds(de).default_easing(ez(&set[\"default_ez\"])), _ => b };\n            let mut tl = TimelineBuilder::build(b);\n";
        src += "            let meta = json!({\"delay\": tl.delay(), \"cycle\": tl.cycle_duration(), \"duration\": if tl.duration().is_finite() { json!(tl.duration()) } else { json!(\"inf\") }, \"repeat\": rep_out(tl.repeat())});\n";
        src += &format!("            if let Some(st) = set[\"start\"].as_array() {{\n                let mut sv = fresh();\n");
        for (j, fi) in anim.iter().enumerate() {
            src += &format!("                sv.x{fi} = st[{j}].as_f64().unwrap() as {};\n", sh.fields[*fi].ty.name());
        }
        src += "                tl.start_with(&sv);\n            }\n            let mut obs = vec![];\n            for t in set[\"times\"].as_array().unwrap() {\n                let mut target = fresh();\n                tl.update(&mut target, t.as_f64().unwrap() as f32);\n                obs.push(dump(&target));\n            }\n";
        // keyframe_from probe
        src += &format!("            let fv = set[\"from_vals\"].as_array().unwrap();\n            let mut v = fresh();\n");
        for (k, f) in sh.fields.iter().enumerate() {
            src += &format!("            v.x{k} = fv[{k}].as_f64().unwrap() as {};\n", f.ty.name());
        }
        src += &format!("            let p = set[\"from_pos\"].as_f64().unwrap() as f32;\n            let t1 = TimelineBuilder::build(S{i}::timeline().duration_seconds(1.0).keyframe(S{i}::keyframe_from(&v, p)));\n            let mut explicit = S{i}::keyframe(p);\n");
        for fi in &anim {
            src += &format!("            explicit = explicit.x{fi}(v.x{fi});\n");
        }
        // a setter called after keyframe_from replaces the copied value of that field (and only that)
        if let Some(f0) = anim.first() {
            let ty = sh.fields[*f0].ty.name();
            src += &format!("            {{ let w = (v.x{f0} as f64 * 0.5 + 1.0) as {ty}; let ta = TimelineBuilder::build(S{i}::timeline().duration_seconds(1.0).keyframe(S{i}::keyframe_from(&v, p).x{f0}(w))); let mut e2 = S{i}::keyframe(p);\n");
            for fi in &anim {
                if fi == f0 {
                    src += &format!("              e2 = e2.x{fi}(w);\n");
                } else {
                    src += &format!("              e2 = e2.x{fi}(v.x{fi});\n");
                }
            }
            src += &format!("              let tb = TimelineBuilder::build(S{i}::timeline().duration_seconds(1.0).keyframe(e2)); for q in [0.0f32, 0.5, 1.0, p] {{ let (mut a, mut b2) = (fresh(), fresh()); ta.update(&mut a, q); tb.update(&mut b2, q); assert!(dump(&a).iter().zip(dump(&b2).iter()).all(|(x, y)| x.to_bits() == y.to_bits()), \"keyframe_from(&v, p).x{f0}(w) differs from the keyframe with the same fields set explicitly at {{q}}: {{:?}} vs {{:?}}\", dump(&a), dump(&b2)); }} }}\n");
        }
        src += &format!("            let t2 = TimelineBuilder::build(S{i}::timeline().duration_seconds(1.0).keyframe(explicit));\n            let mut kf_obs = vec![];\n            for q in [0.0f32, 0.25, 0.5, 0.75, 1.0, p] {{\n                let (mut a, mut b2) = (fresh(), fresh());\n                t1.update(&mut a, q);\n                t2.update(&mut b2, q);\n                kf_obs.push(json!([q, dump(&a), dump(&b2)]));\n            }}\n            out.push(json!({{\"meta\": meta, \"obs\": obs, \"kf_from\": kf_obs}}));\n        }}\n        json!(out)\n    }}\n}}\n\n");
        let renamed = rename_fields(&src[chunk_start..], sh.names);
        src.truncate(chunk_start);
        src += &renamed;
    }
    src += "fn main() {\n    let data: Value = serde_json::from_str(&std::fs::read_to_string(std::env::args().nth(1).unwrap()).unwrap()).unwrap();\n";
    for i in 0..shapes.len() {
        // a panic while building / evaluating the derived timeline of a valid shape is reported for that shape
        src += &format!("    match std::panic::catch_unwind(|| shape_{i}::run(&data[{i}])) {{ Ok(r) => println!(\"{{}}\", json!({{\"shape\": {i}, \"result\": r}})), Err(p) => println!(\"{{}}\", json!({{\"shape\": {i}, \"panic\": p.downcast_ref::<String>().cloned().or_else(|| p.downcast_ref::<&str>().map(|s| s.to_string())).unwrap_or_default()}})) }}\n");
    }
    src += "}\n";
    src
}

fn neg_program(shapes: &[Shape]) -> (String, Vec<(u32, usize, usize)>) {
    let mut src = String::from("// generated by mv-gen (C17 negative batch): every probe line must fail with E0599 (no such setter)\n#![allow(unused, dead_code)]\n\n");
    let mut probes = vec![];
    for (i, sh) in shapes.iter().enumerate() {
        let anim = sh.animated();
        let non: Vec<usize> = (0..sh.fields.len()).filter(|k| !anim.contains(k)).collect();
        if non.is_empty() {
            continue;
        }
        let chunk_start = src.len();
        src += &format!("mod shape_{i} {{\n    use mina::prelude::*;\n");
        src += &shape_defs(sh, i);
        for k in non {
            let line = src.lines().count() as u32 + 1;
            src += &format!("    fn probe_{k}() {{ let _ = S{i}::keyframe(0.5).x{k}(Default::default()); }}\n");
            probes.push((line, i, k));
        }
        src += "}\n";
        let renamed = rename_fields(&src[chunk_start..], sh.names);
        src.truncate(chunk_start);
        src += &renamed;
    }
    src += "\nfn main() {}\n";
    (src, probes)
}

fn sentinel_value(k: usize, ty: Ty) -> f64 {
    match ty {
        Ty::F32 => 12345.5 + k as f64,
        Ty::F64 => 54321.25 + k as f64,
        Ty::U8 => (77 + k) as f64,
        Ty::I16 => -1234.0 - k as f64,
        Ty::I32 => -7_654_321.0 - k as f64,
        Ty::U32 => (7_654_321 + k) as f64,
    }
}

fn judge_shape(sh: &Shape, result: &serde_json::Value) -> Result<(), String> {
    let anim = sh.animated();
    let res = result.as_array().ok_or("no result array")?;
    for (si, set) in sh.sets.iter().enumerate() {
        let r = &res[si];
        // metadata accessors return what the builder was given
        let m = &r["meta"];
        let f = |v: &serde_json::Value| v.as_f64().map(|x| x as f32);
        if f(&m["delay"]).map(|x| x.to_bits()) != Some(set.timing.delay.to_bits()) && !(f(&m["delay"]) == Some(0.0) && set.timing.delay == 0.0) {
            return Err(format!("set {si}: delay() = {} but the builder was given {:?}", m["delay"], set.timing.delay));
        }
        if f(&m["cycle"]).map(|x| x.to_bits()) != Some(set.timing.cycle.to_bits()) {
            return Err(format!("set {si}: cycle_duration() = {} but the builder was given {:?}", m["cycle"], set.timing.cycle));
        }
        let want_rep = match set.timing.repeat {
            Rep::None => json!("None"),
            Rep::Infinite => json!("Infinite"),
            Rep::Times(n) => json!({"Times": n}),
        };
        if m["repeat"] != want_rep {
            return Err(format!("set {si}: repeat() = {} but the builder was given {:?}", m["repeat"], set.timing.repeat));
        }
        let total = set.timing.total();
        if total.is_infinite() {
            if m["duration"] != json!("inf") {
                return Err(format!("set {si}: duration() = {} for an infinite timeline", m["duration"]));
            }
        } else {
            let d = f(&m["duration"]).ok_or(format!("set {si}: duration() = {}", m["duration"]))?;
            if !(d.is_finite() && ulps_between(d, total as f32) <= 2) {
                return Err(format!("set {si}: duration() = {d:?} but delay + cycle x (repeats+1) = {total}"));
            }
        }
        // evaluation per C01 on the (remote) target type
        let kfs: Vec<(f32, Vec<Option<f64>>, Option<Ez>)> = set.kfs.clone();
        let model = ModelTl::dynamic(set.timing, set.default_ez, &kfs, anim.iter().map(|i| sh.fields[*i].ty.is_int()).collect(), anim.iter().map(|i| format!("x{i}")).collect());
        for (ti, t) in set.times.iter().enumerate() {
            let row = r["obs"][ti].as_array().ok_or("missing observation row")?;
            for (k, fld) in sh.fields.iter().enumerate() {
                let got = row[k].as_f64().ok_or("non-numeric observation")?;
                match anim.iter().position(|a| *a == k) {
                    Some(j) if model.animates(j) => {
                        let start = set.start.as_ref().map(|s| s[j]);
                        model.judge_window(j, *t as f64, 0.0, start, got).map_err(|e| format!("set {si}, field x{k}: {} ({}) at t={t:?}: {e}", fld.ty.name(), if sh.remote { "remote target" } else { "local" }))?;
                    }
                    _ => {
                        if got != sentinel_value(k, fld.ty) {
                            return Err(format!("set {si}: field x{k} ({}) is {} but was modified at t={t:?}: {} -> {got}", fld.ty.name(), if anim.contains(&k) { "animated without keyframes" } else { "not animated" }, sentinel_value(k, fld.ty)));
                        }
                    }
                }
            }
        }
        // keyframe_from copies exactly the animated fields
        for row in r["kf_from"].as_array().ok_or("missing kf_from")? {
            let q = row[0].as_f64().unwrap();
            let (a, b) = (row[1].as_array().unwrap(), row[2].as_array().unwrap());
            for (k, fld) in sh.fields.iter().enumerate() {
                let (x, y) = (a[k].as_f64().unwrap(), b[k].as_f64().unwrap());
                if x != y {
                    return Err(format!("set {si}: keyframe_from(&v, {:?}) differs from the keyframe with exactly the animated fields of v at position {q}: field x{k} {x} vs {y}", set.from_pos));
                }
                if !anim.contains(&k) && x != sentinel_value(k, fld.ty) {
                    return Err(format!("set {si}: keyframe_from copied the non-animated field x{k}: target shows {x}"));
                }
                if anim.contains(&k) && (q as f32) == set.from_pos {
                    let want = set.from_vals[k];
                    let ok = if fld.ty.is_int() { x == want } else { (x - want).abs() <= 4.0 * mv_model::ulp32(want as f32) as f64 };
                    if !ok {
                        return Err(format!("set {si}: keyframe_from(&v, p) evaluated at p gives x{k} = {x}, v.x{k} = {want}"));
                    }
                }
            }
        }
    }
    Ok(())
}

fn nontrivial(sh: &Shape) -> bool {
    let anim = sh.animated();
    let mixed = anim.len() < sh.fields.len();
    let tys: std::collections::HashSet<Ty> = sh.fields.iter().map(|f| f.ty).collect();
    mixed || sh.remote || tys.len() >= 3
}

pub fn run_batch(shapes: &[Shape], name: &str, slot: usize) -> Vec<Outcome> {
    let src = program(shapes);
    let (neg, probes) = neg_program(shapes);
    let Ok(cr) = make_crate(name, &[("shapes", src), ("probes", neg)], true) else { return vec![Outcome::Infra("cannot create crate".into())] };
    let data: Vec<&Vec<KfSet>> = shapes.iter().map(|s| &s.sets).collect();
    let data_path = cr.dir.join("data.json");
    std::fs::write(&data_path, serde_json::to_string(&data).unwrap()).unwrap();
    let mut out = vec![];
    let (ok, diags, stderr) = build(&cr, "shapes", slot);
    if !ok {
        // attribute to a shape through the module the error is in
        let text = std::fs::read_to_string(cr.dir.join("src/shapes.rs")).unwrap_or_default();
        let lines: Vec<&str> = text.lines().collect();
        let d = diags.iter().find(|d| d.file == "src/shapes.rs");
        if let Some(d) = d {
            let mut idx = None;
            for l in (0..(d.line as usize).min(lines.len())).rev() {
                if let Some(rest) = lines[l].strip_prefix("mod shape_") {
                    idx = rest.split_whitespace().next().and_then(|s| s.parse::<usize>().ok());
                    break;
                }
            }
            match idx {
                Some(i) => out.push(Outcome::Violation { check_case: serde_json::to_value(&shapes[i]).unwrap(), detail: format!("the derived API of a supported struct shape does not compile (line: `{}`): {}", lines.get(d.line as usize - 1).unwrap_or(&"").trim(), d.message) }),
                None => out.push(Outcome::Infra(format!("shapes batch {name} failed to build: {} {}", d.message, stderr))),
            }
        } else {
            out.push(Outcome::Infra(format!("shapes batch {name} failed to build: {:?} {}", diags.first(), stderr)));
        }
        return out;
    }
    let (code, stdout, stderr) = run_bin(&cr, "shapes", slot, &[data_path.to_str().unwrap()]);
    let mut seen = 0;
    for l in stdout.lines() {
        let Ok(v) = serde_json::from_str::<serde_json::Value>(l) else { continue };
        let i = v["shape"].as_u64().unwrap_or(0) as usize;
        seen += 1;
        if let Some(msg) = v.get("panic") {
            out.push(Outcome::Violation { check_case: serde_json::to_value(&shapes[i]).unwrap(), detail: format!("building or evaluating the derived timeline of a supported struct shape ({} fields, {} animated) panicked: {}", shapes[i].fields.len(), shapes[i].animated().len(), msg.as_str().unwrap_or("")) });
            break;
        }
        if let Err(e) = judge_shape(&shapes[i], &v["result"]) {
            out.push(Outcome::Violation { check_case: serde_json::to_value(&shapes[i]).unwrap(), detail: format!("shape {:?} (remote: {}): {e}", shapes[i].fields.iter().map(|f| format!("{}{}", if f.marked { "#[animate] " } else { "" }, f.ty.name())).collect::<Vec<_>>(), shapes[i].remote) });
            break;
        }
    }
    if seen != shapes.len() && out.is_empty() {
        out.push(Outcome::Infra(format!("shapes batch {name}: {seen} results for {} shapes (exit {code}): {}", shapes.len(), stderr.chars().take(600).collect::<String>())));
    }
    // negative probes
    if !probes.is_empty() && out.is_empty() {
        let (ok, diags, _) = build(&cr, "probes", slot);
        let errs: std::collections::HashMap<u32, &Diag> = diags.iter().filter(|d| d.file == "src/probes.rs").map(|d| (d.line, d)).collect();
        if ok {
            let (_, i, k) = probes[0];
            out.push(Outcome::Violation { check_case: serde_json::to_value(&shapes[i]).unwrap(), detail: format!("a setter for the non-animated field x{k} exists (the whole probe file compiled)") });
        } else {
            for (line, i, k) in &probes {
                match errs.get(line) {
                    Some(d) if d.code.as_deref() == Some("E0599") => {}
                    Some(_) => {}
                    None => {
                        out.push(Outcome::Violation { check_case: serde_json::to_value(&shapes[*i]).unwrap(), detail: format!("the keyframe builder has a setter named after the NON-animated field x{k}: the probe line compiled without error") });
                        break;
                    }
                }
            }
        }
    }
    if std::env::var("VERIF_KEEP_GEN").is_err() {
        let _ = std::fs::remove_dir_all(&cr.dir);
    }
    out
}

/// One-step simplifications of a failing shape (fewer sets, keyframes, times, fields).
fn shrink_candidates(sh: &Shape) -> Vec<Shape> {
    let mut out = vec![];
    if sh.sets.len() > 1 {
        for i in 0..sh.sets.len() {
            let mut n = sh.clone();
            n.sets = vec![sh.sets[i].clone()];
            out.push(n);
        }
    }
    for (si, set) in sh.sets.iter().enumerate() {
        for k in 0..set.kfs.len() {
            let mut n = sh.clone();
            n.sets[si].kfs.remove(k);
            out.push(n);
        }
        if set.times.len() > 1 {
            for k in 0..set.times.len() {
                let mut n = sh.clone();
                n.sets[si].times = vec![set.times[k]];
                out.push(n);
            }
        }
        if set.start.is_some() {
            let mut n = sh.clone();
            n.sets[si].start = None;
            out.push(n);
        }
        if set.timing.repeat != Rep::None || set.timing.reverse || set.timing.delay != 0.0 {
            let mut n = sh.clone();
            n.sets[si].timing.repeat = Rep::None;
            n.sets[si].timing.reverse = false;
            n.sets[si].timing.delay = 0.0;
            out.push(n);
        }
    }
    // drop a field, when that leaves the animated set otherwise unchanged
    let anim = sh.animated();
    if sh.fields.len() > 1 {
        for k in 0..sh.fields.len() {
            let mut n = sh.clone();
            n.fields.remove(k);
            let expect: Vec<usize> = anim.iter().filter(|i| **i != k).map(|i| if *i > k { *i - 1 } else { *i }).collect();
            if n.animated() != expect || expect.is_empty() {
                continue;
            }
            let j = anim.iter().position(|i| *i == k);
            for set in n.sets.iter_mut() {
                set.from_vals.remove(k);
                if let Some(j) = j {
                    for kf in set.kfs.iter_mut() {
                        kf.1.remove(j);
                    }
                    if let Some(st) = set.start.as_mut() {
                        st.remove(j);
                    }
                }
            }
            out.push(n);
        }
    }
    if sh.remote {
        let mut n = sh.clone();
        n.remote = false;
        out.push(n);
    }
    out.truncate(100);
    out
}

/// Batch shrinking (as in C16): compile all one-step simplifications together, continue with the
/// first that still fails.
fn shrink(sh: Shape, detail: String) -> (Shape, String) {
    let mut cur = sh;
    let mut cur_detail = detail;
    for round in 0..25 {
        let cands = shrink_candidates(&cur);
        if cands.is_empty() {
            break;
        }
        let mut next = None;
        // run_batch reports the first failing shape of the batch
        for o in run_batch(&cands, &format!("c17-shrink-{round}"), 0) {
            if let Outcome::Violation { check_case, detail } = o {
                if let Ok(s) = serde_json::from_value::<Shape>(check_case) {
                    next = Some((s, detail));
                    break;
                }
            }
        }
        match next {
            Some((s, d)) => {
                cur = s;
                cur_detail = d;
            }
            None => break,
        }
    }
    (cur, cur_detail)
}

pub fn c17(run: &mut Run) {
    run.assume("struct family: 1-6 fields of f32/f64/u8/i16/i32/u32, any #[animate] subset (none = all), field and struct visibility priv/pub/pub(crate), optional doc comment + attribute before, after or around the marker, local or remote proxy with the target imported as in the documentation; easings without the Back family (documented Lerp range panic)");
    if let mv_engine::Mode::Replay { case, .. } = &run.mode {
        if let Ok(c) = serde_json::from_value::<Shape>(case.clone()) {
            for o in run_batch(&[c], "c17-replay", 0) {
                match o {
                    Outcome::Ok => {}
                    Outcome::Violation { check_case, detail } => run.record_violation(Violation { check: "c17_shapes".into(), case: check_case, detail }),
                    Outcome::Infra(m) => run.health_fail(m),
                }
            }
            run.mark_replay_ran();
            println!("REPLAY property=C17 check=c17_shapes done");
        }
        return;
    }
    let t0 = std::time::Instant::now();
    let batches = if run.tier == Tier::Quick { 12 } else { 480 };
    let per = 60usize;
    let seed = run.seed;
    let mut results = par_batches(batches, slots_for(batches), |b, slot| run_batch(&generate(&shape_strategy(), seed, &format!("c17-{b}"), per), &format!("c17-{b}"), slot), |r| any_not_ok(r));
    let mut total = 0u64;
    let mut evals = 0u64;
    let mut nontriv = std::collections::HashSet::new();
    let mut samples = vec![];
    let mut classes: std::collections::BTreeMap<&str, u64> = Default::default();
    for b in 0..batches {
        let shapes = generate(&shape_strategy(), run.seed, &format!("c17-{b}"), per);
        for sh in &shapes {
            if nontrivial(sh) {
                nontriv.insert(mv_engine::case_key(sh));
                if samples.len() < 3 {
                    samples.push(json!({"fields": sh.fields, "remote": sh.remote, "struct_vis": sh.struct_vis, "first_set": sh.sets[0]}));
                }
            }
            let mut bump = |k: &'static str| *classes.entry(k).or_default() += 1;
            if sh.remote {
                bump("remote");
            }
            if sh.names != 0 {
                bump("field_names_that_occur_in_generated_code");
            }
            if sh.fields.len() > 32 {
                bump("more_than_32_fields");
            }
            if sh.fields.len() > 64 {
                bump("more_than_64_fields");
            }
            if sh.animated().len() < sh.fields.len() {
                bump("mixed_animated_and_not");
            }
            if !sh.fields.iter().any(|f| f.marked) {
                bump("no_field_marked");
            }
            if sh.fields.iter().any(|f| f.marked && f.decorated) {
                bump("marker_after_doc_comment");
            }
            if sh.fields.iter().any(|f| !f.marked && f.decorated) && sh.fields.iter().any(|f| f.marked) {
                bump("other_attributes_on_excluded_field");
            }
            evals += sh.sets.iter().map(|s| s.times.len() as u64).sum::<u64>();
        }
        total += shapes.len() as u64;
        let Some(outcomes) = results[b].take() else { break };
        for o in outcomes {
            match o {
                Outcome::Ok => {}
                Outcome::Violation { check_case, detail } => {
                    let (case, detail) = match serde_json::from_value::<Shape>(check_case.clone()) {
                        Ok(sh) => {
                            let (sh, d) = shrink(sh, detail);
                            (serde_json::to_value(&sh).unwrap(), d)
                        }
                        Err(_) => (check_case, detail),
                    };
                    run.record_violation(Violation { check: "c17_shapes".into(), case, detail })
                }
                Outcome::Infra(m) => run.health_fail(m),
            }
        }
        if run.violation_count() > 0 {
            break;
        }
    }
    run.extra("c17_generator_classes", json!(classes));
    run.extra("c17_timeline_evaluations", json!(evals));
    run.external(
        "c17_shapes",
        "generated programs (derive output vs dynamic reference model + negative setter probes)",
        "proptest-generated struct shapes (see assumptions; 1-6 fields, occasionally 33-36 or 65-68; a quarter with field names that also occur as identifiers inside the generated code) each with 4 keyframe sets x 12 times: the compiled derive output is evaluated and judged against the dynamic f64 model (C01 oracle) on the (remote) target type; non-animated fields keep sentinels; keyframe_from == keyframe with exactly the animated fields; delay/cycle/duration/repeat accessors return what the builder was given; a probe file calls a setter named after every NON-animated field and every such line must fail to compile; non-trivial = shape mixes animated and non-animated fields or is remote or has >= 3 field types; distinct = hash of the shape",
        total,
        nontriv.len() as u64,
        samples,
        t0.elapsed().as_secs_f64(),
    );
    for k in ["remote", "mixed_animated_and_not", "no_field_marked", "marker_after_doc_comment", "other_attributes_on_excluded_field"] {
        if classes.get(k).copied().unwrap_or(0) * 20 < total {
            run.health_fail(format!("c17 generator: class {k} on fewer than 5% of shapes"));
        }
    }
}

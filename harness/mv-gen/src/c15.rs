//! C15: `timeline!` == builder API under the documented reading; ill-formed sentences rejected.

use crate::harness::*;
use mv_core::desc::{Ez, KfDesc, TlDesc, BUILTINS, PROP_NAMES};
use mv_engine::{Run, Tier, Violation};
use mv_model::{Rep, Timing};
use proptest::prelude::*;
use serde::{Deserialize, Serialize};
use serde_json::json;

/// A numeric literal: its printed digits (without suffix) and its real value.
#[derive(Clone, Debug, Serialize, Deserialize, PartialEq)]
pub struct NumLit {
    pub text: String,
    pub value: f64,
}

#[derive(Clone, Copy, Debug, Serialize, Deserialize, PartialEq)]
pub enum Unit {
    S,
    Ms,
}

#[derive(Clone, Debug, Serialize, Deserialize, PartialEq)]
pub enum KfPos {
    From,
    To,
    Pct(NumLit),
}

#[derive(Clone, Debug, Serialize, Deserialize, PartialEq)]
pub struct KfArg {
    pub pos: KfPos,
    /// (property index, value)
    pub fields: Vec<(usize, f64)>,
    /// `default` body (only meaningful inside animator!, see C16)
    pub default_body: bool,
}

#[derive(Clone, Debug, Serialize, Deserialize, PartialEq)]
pub enum Arg {
    Duration { lit: NumLit, unit: Unit, with_for: bool },
    Delay { lit: NumLit, unit: Unit },
    Times(u32),
    Infinite,
    Reverse,
    Easing(Ez),
    Kf(KfArg),
}

#[derive(Clone, Debug, Serialize, Deserialize, PartialEq)]
pub struct Sentence {
    /// arguments in the order they are written
    pub args: Vec<Arg>,
}

#[derive(Clone, Debug, Serialize, Deserialize)]
pub struct C15Case {
    /// one sentence, or several = bracketed merged list
    pub sentences: Vec<Sentence>,
    pub bracket_single: bool,
}

pub fn numlit_strategy(max: u32, allow_frac: bool) -> impl Strategy<Value = NumLit> {
    let int = (0u32..=max).prop_flat_map(|v| {
        prop_oneof![
            4 => Just(NumLit { text: format!("{v}"), value: v as f64 }),
            1 => Just(NumLit { text: underscored(v), value: v as f64 }),
        ]
    });
    if !allow_frac {
        return int.boxed();
    }
    let frac = (0u32..=max, prop::sample::select(vec![5u32, 25, 75, 125, 1, 3, 7, 9, 33])).prop_map(|(i, f)| {
        let digits = if f < 10 { 1 } else if f < 100 { 2 } else { 3 };
        let text = format!("{i}.{:0width$}", f, width = digits);
        let value: f64 = text.parse().unwrap();
        NumLit { text, value }
    });
    let exp = (1u32..=9, 0u32..=2).prop_map(|(m, e)| NumLit { text: format!("{m}e{e}"), value: m as f64 * 10f64.powi(e as i32) });
    prop_oneof![5 => int, 4 => frac, 1 => exp].boxed()
}

fn underscored(v: u32) -> String {
    let s = v.to_string();
    if s.len() < 2 {
        return format!("{s}_");
    }
    let (a, b) = s.split_at(s.len() - 1);
    format!("{a}_{b}")
}

fn value_strategy(prop: usize) -> BoxedStrategy<f64> {
    match prop {
        0 | 1 => prop_oneof![(-200i32..=200).prop_map(|v| v as f64 / 4.0), (-1000i32..1000).prop_map(|v| v as f64)].boxed(),
        2 => (-100_000i32..=100_000).prop_map(|v| v as f64).boxed(),
        _ => (0u32..=255).prop_map(|v| v as f64).boxed(),
    }
}

pub fn kf_strategy(allow_default_body: bool) -> impl Strategy<Value = KfArg> {
    let pos = prop_oneof![
        2 => Just(KfPos::From),
        2 => Just(KfPos::To),
        5 => numlit_strategy(100, true).prop_filter("pct <= 100", |l| l.value <= 100.0).prop_map(KfPos::Pct),
        1 => prop::sample::select(vec![("0", 0.0), ("100", 100.0), ("0.0", 0.0), ("100.0", 100.0)]).prop_map(|(t, v)| KfPos::Pct(NumLit { text: t.to_string(), value: v })),
    ];
    let fields = prop::collection::vec(any::<bool>(), 4).prop_flat_map(|mask| {
        let picks: Vec<usize> = mask.iter().enumerate().filter(|(_, m)| **m).map(|(i, _)| i).collect();
        let strategies: Vec<BoxedStrategy<(usize, f64)>> = picks.into_iter().map(|i| value_strategy(i).prop_map(move |v| (i, v)).boxed()).collect();
        strategies
    });
    (pos, fields, if allow_default_body { prop::bool::weighted(0.25).boxed() } else { Just(false).boxed() }).prop_map(|(pos, fields, default_body)| KfArg { pos, fields, default_body })
}

pub fn easing_strategy() -> impl Strategy<Value = Ez> {
    prop::sample::select(BUILTINS[..26].to_vec())
}

/// `exact_units`: only durations/positions whose documented reading is reproduced exactly by a
/// straightforward f32 conversion (used by C16, where everything is compared bitwise).
pub fn sentence_strategy(allow_default_body: bool, exact_units: bool) -> impl Strategy<Value = Sentence> {
    let dur = if exact_units {
        (prop::sample::select(vec![("1", 1.0), ("2", 2.0), ("0.5", 0.5), ("4", 4.0), ("1.5", 1.5), ("0.25", 0.25), ("3", 3.0)]), any::<bool>())
            .prop_map(|((t, v), with_for)| Arg::Duration { lit: NumLit { text: t.to_string(), value: v }, unit: Unit::S, with_for })
            .boxed()
    } else {
        (numlit_strategy(30, true), prop::sample::select(vec![Unit::S, Unit::Ms]), any::<bool>())
            .prop_filter("positive", |(l, _, _)| l.value > 0.0)
            .prop_map(|(lit, unit, with_for)| {
                let lit = if unit == Unit::Ms { NumLit { text: ms_text(&lit), value: lit.value * 100.0 } } else { lit };
                Arg::Duration { lit, unit, with_for }
            })
            .boxed()
    };
    let delay = if exact_units {
        prop::sample::select(vec![("1", 1.0), ("0.5", 0.5), ("2", 2.0), ("0.25", 0.25)]).prop_map(|(t, v)| Arg::Delay { lit: NumLit { text: t.to_string(), value: v }, unit: Unit::S }).boxed()
    } else {
        (numlit_strategy(10, true), prop::sample::select(vec![Unit::S, Unit::Ms]))
            .prop_map(|(lit, unit)| {
                let lit = if unit == Unit::Ms { NumLit { text: ms_text(&lit), value: lit.value * 100.0 } } else { lit };
                Arg::Delay { lit, unit }
            })
            .boxed()
    };
    let rep = prop_oneof![3 => (1u32..=5).prop_map(Arg::Times), 1 => prop::sample::select(vec![1000u32, 16_777_216, 16_777_217, 33_554_435, u32::MAX - 1, u32::MAX]).prop_map(Arg::Times), 2 => Just(Arg::Infinite)];
    // mostly a handful of keyframes; now and then a long sentence (16-36 keyframe clauses)
    let kfs = prop_oneof![30 => prop::collection::vec(kf_strategy(allow_default_body), 0..=5), 1 => prop::collection::vec(kf_strategy(allow_default_body), 16..=36)];
    (
        prop::option::weighted(0.8, dur),
        prop::option::weighted(0.4, delay),
        prop::option::weighted(0.5, rep),
        prop::bool::weighted(0.4),
        prop::option::weighted(0.5, easing_strategy()),
        kfs,
        prop::collection::vec(any::<u16>(), 12),
    )
        .prop_map(move |(dur, delay, rep, reverse, ez, kfs, order)| {
            let mut args: Vec<Arg> = vec![];
            args.extend(dur);
            args.extend(delay);
            args.extend(rep);
            if reverse {
                args.push(Arg::Reverse);
            }
            if let Some(e) = ez {
                args.push(Arg::Easing(e));
            }
            // every fourth sentence: values restated from one keyframe to the next (a "hold": the
            // property stays put between two keyframes that say the same thing) - textually identical
            let mut kfs = kfs;
            if order[11] % 4 == 0 {
                for i in 1..kfs.len() {
                    let prev = kfs[i - 1].fields.clone();
                    for f in kfs[i].fields.iter_mut() {
                        if let Some(p) = prev.iter().find(|p| p.0 == f.0) {
                            f.1 = p.1;
                        }
                    }
                }
            }
            for mut k in kfs {
                if exact_units {
                    if let KfPos::Pct(l) = &k.pos {
                        let exact = ((l.value as f32) * 0.01f32) == (l.value / 100.0) as f32;
                        if !exact {
                            k.pos = KfPos::Pct(NumLit { text: "50".into(), value: 50.0 });
                        }
                    }
                }
                args.push(Arg::Kf(k));
            }
            // random argument order (Lehmer code)
            let mut pool = args;
            let mut out = vec![];
            let mut i = 0;
            while !pool.is_empty() {
                let k = mv_engine::pick_idx(order[i % order.len()], pool.len());
                out.push(pool.remove(k));
                i += 1;
            }
            Sentence { args: out }
        })
}

/// "N ms" literal text for a value given in tenths of a second (so that 2.5 -> 250ms)
fn ms_text(l: &NumLit) -> String {
    let ms = l.value * 100.0;
    if ms == ms.trunc() {
        let v = ms as u32;
        if v >= 1000 && v % 7 == 0 { underscored(v) } else { format!("{v}") }
    } else {
        format!("{ms}")
    }
}

pub fn c15_strategy() -> impl Strategy<Value = C15Case> {
    prop_oneof![
        6 => sentence_strategy(false, false).prop_map(|s| C15Case { sentences: vec![s], bracket_single: false }),
        1 => sentence_strategy(false, false).prop_map(|s| C15Case { sentences: vec![s], bracket_single: true }),
        3 => prop::collection::vec(sentence_strategy(false, false), 2..=3).prop_map(|sentences| C15Case { sentences, bracket_single: false }),
    ]
}

// ---- printing

pub fn field_text(prop: usize, v: f64) -> String {
    match prop {
        0 | 1 => {
            if v == v.trunc() {
                format!("{:.1}", v)
            } else {
                format!("{v}")
            }
        }
        _ => format!("{}", v as i64),
    }
}

thread_local! {
    /// when set, f32 field values are printed as expressions over the caller's local variables
    /// `delay` (= 8.0) and `duration` (= 4.0), which the generated function declares
    static WITH_VARS: std::cell::Cell<bool> = const { std::cell::Cell::new(false) };
}

pub fn with_vars<T>(on: bool, f: impl FnOnce() -> T) -> T {
    WITH_VARS.with(|w| w.set(on));
    let r = f();
    WITH_VARS.with(|w| w.set(false));
    r
}

fn field_text_v(prop: usize, v: f64) -> String {
    if WITH_VARS.with(|w| w.get()) {
        match prop {
            0 => return format!("delay * {}", field_text(0, v / 8.0)),
            1 => return format!("duration * {} + delay * 0.0", field_text(1, v / 4.0)),
            _ => {}
        }
    }
    field_text(prop, v)
}

pub fn print_kf(k: &KfArg) -> String {
    let pos = match &k.pos {
        KfPos::From => "from".to_string(),
        KfPos::To => "to".to_string(),
        KfPos::Pct(l) => format!("{}%", l.text),
    };
    if k.default_body {
        return format!("{pos} default");
    }
    let body: Vec<String> = k.fields.iter().map(|(p, v)| format!("{}: {}", PROP_NAMES[*p], field_text_v(*p, *v))).collect();
    format!("{pos} {{ {} }}", body.join(", "))
}

pub fn print_arg(a: &Arg) -> String {
    match a {
        Arg::Duration { lit, unit, with_for } => format!("{}{}{}", if *with_for { "for " } else { "" }, lit.text, if *unit == Unit::S { "s" } else { "ms" }),
        Arg::Delay { lit, unit } => format!("after {}{}", lit.text, if *unit == Unit::S { "s" } else { "ms" }),
        Arg::Times(n) => format!("{n}x"),
        Arg::Infinite => "infinite".into(),
        Arg::Reverse => "reverse".into(),
        Arg::Easing(e) => format!("Easing::{:?}", e),
        Arg::Kf(k) => print_kf(k),
    }
}

pub fn print_sentence(s: &Sentence) -> String {
    s.args.iter().map(print_arg).collect::<Vec<_>>().join(" ")
}

pub fn print_behavior(sentences: &[Sentence], bracket_single: bool) -> String {
    if sentences.len() == 1 && !bracket_single {
        print_sentence(&sentences[0])
    } else {
        format!("[{}]", sentences.iter().map(print_sentence).collect::<Vec<_>>().join(", "))
    }
}

// ---- documented reading

/// The builder reading of a sentence; `defaults` = the animator's initial values for `default` bodies.
pub fn reading(s: &Sentence, defaults: Option<&mv_core::desc::Vals>) -> TlDesc {
    let mut timing = Timing { cycle: 1.0, delay: 0.0, repeat: Rep::None, reverse: false };
    let mut default_ez = Ez::Linear;
    let mut kfs = vec![];
    for a in &s.args {
        match a {
            Arg::Duration { lit, unit, .. } => timing.cycle = (if *unit == Unit::S { lit.value } else { lit.value / 1000.0 }) as f32,
            Arg::Delay { lit, unit } => timing.delay = (if *unit == Unit::S { lit.value } else { lit.value / 1000.0 }) as f32,
            Arg::Times(n) => timing.repeat = Rep::Times(*n),
            Arg::Infinite => timing.repeat = Rep::Infinite,
            Arg::Reverse => timing.reverse = true,
            Arg::Easing(e) => default_ez = *e,
            Arg::Kf(k) => {
                let pos = match &k.pos {
                    KfPos::From => 0.0,
                    KfPos::To => 1.0,
                    KfPos::Pct(l) => (l.value / 100.0) as f32,
                };
                let mut kd = KfDesc { pos, a: None, b: None, c: None, d: None, ez: None };
                if k.default_body {
                    let d = defaults.expect("default body outside animator");
                    kd.a = Some(d.a);
                    kd.b = Some(d.b);
                    kd.c = Some(d.c);
                    kd.d = Some(d.d);
                } else {
                    for (p, v) in &k.fields {
                        match p {
                            0 => kd.a = Some(*v as f32),
                            1 => kd.b = Some(*v as f32),
                            2 => kd.c = Some(*v as i32),
                            _ => kd.d = Some(*v as u8),
                        }
                    }
                }
                kfs.push(kd);
            }
        }
    }
    TlDesc { timing, default_ez, kfs, order: 0 }
}

// ---- ill-formed mutants

#[derive(Clone, Debug, Serialize, Deserialize)]
pub struct Mutant {
    pub kind: String,
    pub text: String,
}

/// One-token mutations of a well-formed sentence that the documentation calls ill-formed.
pub fn mutants(s: &Sentence, sel: u16) -> Vec<Mutant> {
    let mut out = vec![];
    let printed: Vec<String> = s.args.iter().map(print_arg).collect();
    let join = |parts: &[String]| parts.join(" ");
    for (i, a) in s.args.iter().enumerate() {
        let mut with = |kind: &str, replacement: String| {
            let mut p = printed.clone();
            p[i] = replacement;
            out.push(Mutant { kind: kind.to_string(), text: join(&p) });
        };
        match a {
            Arg::Duration { lit, with_for, .. } => {
                let suffix = ["q", "sec", "m", "h", "px", "S"][sel as usize % 6];
                with("unknown_suffix", format!("{}{}{}", if *with_for { "for " } else { "" }, lit.text, suffix));
                if *with_for {
                    with("for_without_unit", format!("for {}", lit.text));
                }
            }
            Arg::Delay { lit, .. } => {
                with("after_without_unit", format!("after {}", lit.text));
                with("after_unknown_suffix", format!("after {}min", lit.text));
            }
            Arg::Times(n) => {
                with("non_integer_repeat", format!("{n}.5x"));
            }
            Arg::Kf(k) if !k.default_body => {
                let body: Vec<String> = k.fields.iter().map(|(p, v)| format!("{}: {}", PROP_NAMES[*p], field_text(*p, *v))).collect();
                let pos = match &k.pos {
                    KfPos::From => "from".to_string(),
                    KfPos::To => "to".to_string(),
                    KfPos::Pct(l) => format!("{}%", l.text),
                };
                if !body.is_empty() {
                    with("keyframe_without_braces", format!("{pos} {}", body.join(", ")));
                }
                with("keyframe_with_parens", format!("{pos} ( {} )", body.join(", ")));
                if let KfPos::Pct(l) = &k.pos {
                    with("missing_percent", format!("{} {{ {} }}", l.text, body.join(", ")));
                    with("unit_on_percentage", format!("{}s% {{ {} }}", l.text, body.join(", ")));
                }
            }
            _ => {}
        }
    }
    // stray punctuation / trailing garbage
    out.push(Mutant { kind: "stray_punctuation".into(), text: format!("{} ;", join(&printed)) });
    out.push(Mutant { kind: "stray_literal".into(), text: format!("{} 7", join(&printed)) });
    out
}

// ---- programs

fn pos_program(cases: &[C15Case]) -> (String, Vec<u32>) {
    let mut src = String::from(
        "// generated by mv-gen (C15 positive batch)\n#![allow(unused_imports, clippy::all)]\nuse mina::prelude::*;\nuse mv_core::desc::{P, PTimeline, TlDesc};\nuse mv_core::gencheck::compare_timeline;\n\n",
    );
    let mut lines = vec![];
    let mut line = src.lines().count() as u32 + 1;
    for (i, c) in cases.iter().enumerate() {
        lines.push(line);
        let merged = c.sentences.len() > 1 || c.bracket_single;
        let ty = if merged && !(c.sentences.len() == 1) { "MergedTimeline<PTimeline>" } else { "PTimeline" };
        // every third case: keyframe values are expressions over caller locals named `delay` and
        // `duration` (the macro's expansion must not capture or shadow the caller's identifiers)
        let vars = i % 3 == 2;
        let text = with_vars(vars, || print_behavior(&c.sentences, c.bracket_single));
        if vars {
            // the caller's variables are parameters: the same invocation is evaluated twice with
            // different values (a timeline must reflect the values of the evaluation that built it)
            src += &format!("fn m_{i}(delay: f32, duration: f32) -> {ty} {{ let _ = (delay, duration); timeline!(P {text}) }}\n");
        } else {
            src += &format!("fn m_{i}() -> {ty} {{ timeline!(P {text}) }}\n");
        }
        line += 1;
    }
    src += "\nfn main() {\n    let descs: Vec<Vec<TlDesc>> = serde_json::from_str(&std::fs::read_to_string(std::env::args().nth(1).unwrap()).unwrap()).unwrap();\n    let descs2: Vec<Vec<TlDesc>> = serde_json::from_str(&std::fs::read_to_string(std::env::args().nth(2).unwrap()).unwrap()).unwrap();\n";
    src += "    macro_rules! go { ($i:expr, $e:expr, $d:expr, $second:expr) => {{ let r = std::panic::catch_unwind(|| compare_timeline(&$e, &$d[$i])); let line = match r { Ok(Ok(v)) => serde_json::json!({\"case\": $i, \"second\": $second, \"ok\": true, \"info\": v}), Ok(Err(e)) => serde_json::json!({\"case\": $i, \"second\": $second, \"ok\": false, \"detail\": e}), Err(_) => serde_json::json!({\"case\": $i, \"second\": $second, \"ok\": false, \"detail\": \"panic\"}) }; println!(\"{}\", line); }} }\n";
    for i in 0..cases.len() {
        if i % 3 == 2 {
            src += &format!("    go!({i}, m_{i}(8.0, 4.0), descs, false);\n    go!({i}, m_{i}(16.0, 2.0), descs2, true);\n");
        } else {
            src += &format!("    go!({i}, m_{i}(), descs, false);\n");
        }
    }
    src += "}\n";
    (src, lines)
}

fn neg_program(muts: &[Mutant]) -> (String, Vec<u32>) {
    let mut src = String::from("// generated by mv-gen (C15 negative batch): every line below must be rejected\n#![allow(unused)]\nuse mina::prelude::*;\nuse mv_core::desc::{P, PTimeline};\n\n");
    let mut lines = vec![];
    let mut line = src.lines().count() as u32 + 1;
    for (i, m) in muts.iter().enumerate() {
        lines.push(line);
        src += &format!("fn n_{i}() {{ let _ = timeline!(P {}); }}\n", m.text);
        line += 1;
    }
    src += "\nfn main() {}\n";
    (src, lines)
}

pub fn nontrivial(c: &C15Case) -> bool {
    if c.sentences.len() > 1 {
        return true;
    }
    let mut kinds = std::collections::HashSet::new();
    for a in &c.sentences[0].args {
        kinds.insert(std::mem::discriminant(a));
    }
    kinds.len() >= 3
}

pub fn c15(run: &mut Run) {
    run.assume("documented reading: Ns / Nms = cycle seconds (N/1000 for ms), after = delay, Nx repeats, infinite, reverse, path = default easing, from = 0 %, to = 100 %, N% = N/100; one-ulp differences from the macro's f32 unit conversion are accepted (metadata within 2 ulp, values judged by the model with that budget)");
    run.assume("sentences the documentation leaves unspecified (duplicate arguments of one kind, byte literals, 0x) are not generated");
    if let mv_engine::Mode::Replay { case, .. } = &run.mode {
        // replay: a single case, positive or negative
        if let Ok(c) = serde_json::from_value::<C15Case>(case.clone()) {
            let v = run_positive(&[c], "c15-replay", 0);
            report(run, "c15_compiled", v);
            run.mark_replay_ran();
        } else if let Ok(m) = serde_json::from_value::<Mutant>(case.clone()) {
            let v = run_negative(&[m], "c15-replay-neg", 0);
            report(run, "c15_rejection", v);
            run.mark_replay_ran();
        }
        return;
    }
    let t0 = std::time::Instant::now();
    let batches = if run.tier == Tier::Quick { 8 } else { 240 };
    let per = 300usize;
    let seed = run.seed;
    let muts_of = |cases: &[C15Case]| -> Vec<Mutant> {
        let mut muts = vec![];
        for (i, c) in cases.iter().enumerate().take(120) {
            for m in mutants(&c.sentences[0], (i as u16).wrapping_mul(31)) {
                muts.push(m);
            }
        }
        muts
    };
    let mut results = par_batches(
        batches,
        slots_for(batches),
        |b, slot| {
            let cases = generate(&c15_strategy(), seed, &format!("c15-{b}"), per);
            let pos = run_positive(&cases, &format!("c15-pos-{b}"), slot);
            let neg = run_negative(&muts_of(&cases), &format!("c15-neg-{b}"), slot);
            (pos, neg)
        },
        |r| any_not_ok(&r.0) || any_not_ok(&r.1),
    );
    let mut all_cases = 0u64;
    let mut nontriv = std::collections::HashSet::new();
    let mut samples = vec![];
    let mut labels: std::collections::BTreeMap<String, u64> = Default::default();
    let mut neg_total = 0u64;
    let mut neg_distinct = std::collections::HashSet::new();
    let mut neg_kinds: std::collections::BTreeMap<String, u64> = Default::default();
    for b in 0..batches {
        let cases = generate(&c15_strategy(), run.seed, &format!("c15-{b}"), per);
        for c in &cases {
            if nontrivial(c) {
                nontriv.insert(mv_engine::case_key(c));
                if samples.len() < 4 {
                    samples.push(json!({"macro": format!("timeline!(P {})", print_behavior(&c.sentences, c.bracket_single)), "reading": c.sentences.iter().map(|s| reading(s, None)).collect::<Vec<_>>()}));
                }
            }
            let mut bump = |k: &str| *labels.entry(k.to_string()).or_default() += 1;
            if c.sentences.len() > 1 {
                bump("merged_list");
            }
            for s in &c.sentences {
                let mut last = -1.0f64;
                let mut nonasc = false;
                for a in &s.args {
                    match a {
                        Arg::Duration { unit: Unit::Ms, .. } | Arg::Delay { unit: Unit::Ms, .. } => bump("ms_unit"),
                        Arg::Delay { .. } => bump("after"),
                        Arg::Times(_) => bump("nx"),
                        Arg::Kf(k) => {
                            let p = match &k.pos {
                                KfPos::From => 0.0,
                                KfPos::To => 100.0,
                                KfPos::Pct(l) => {
                                    if l.text.contains('.') {
                                        bump("float_percent");
                                    }
                                    l.value
                                }
                            };
                            if p < last {
                                nonasc = true;
                            }
                            last = p;
                        }
                        _ => {}
                    }
                }
                if nonasc {
                    bump("non_ascending_keyframes");
                }
            }
        }
        all_cases += cases.len() as u64;
        let Some((pos, neg)) = results[b].take() else { break };
        report(run, "c15_compiled", pos);
        // negative batch: mutants of the first sentences of this batch
        let muts = muts_of(&cases);
        for m in &muts {
            *neg_kinds.entry(m.kind.clone()).or_default() += 1;
        }
        neg_total += muts.len() as u64;
        for m in &muts {
            neg_distinct.insert(mv_engine::case_key(m));
        }
        report(run, "c15_rejection", neg);
        if run.violation_count() > 0 {
            break;
        }
    }
    run.extra("c15_generator_classes", json!(labels));
    run.extra("c15_mutant_kinds", json!(neg_kinds));
    run.external(
        "c15_compiled",
        "generated programs (compiled differential)",
        "proptest-generated sentences of the timeline! grammar (argument order random, literal forms int/float/underscored/exponent, s/ms, optional `for`, after, Nx, infinite, reverse, easing path, from/to/N%/N.M% keyframes with field subsets incl. empty braces, bracketed lists of 1-3 sentences), each compiled against /repo and compared at run time with the builder reading (metadata <= 2 ulp, values bit-identical or within the model's budget at ~150 times); a well-formed sentence that does not compile is a violation; non-trivial = >= 3 different argument kinds or a merged list; distinct = hash of the case",
        all_cases,
        nontriv.len() as u64,
        samples,
        t0.elapsed().as_secs_f64(),
    );
    run.external(
        "c15_rejection",
        "generated programs (every ill-formed line must fail to compile)",
        "one-token mutants of sentences from the positive batch (unknown suffix, for/after without unit, non-integer repeat, keyframe without braces / with parentheses, missing %, unit on a percentage, stray punctuation / literal), one per source line; rustc's JSON diagnostics must contain an error located on EVERY mutant line",
        neg_total,
        neg_distinct.len() as u64,
        vec![],
        0.0,
    );
    // ---- in-process tier: the macro's own parser/expander on generated sentences (no compilation).
    // It lives in its own program (harness/mv-inproc) because it includes macros/src/fn_timeline.rs by
    // path and calls a crate-internal function: if a change to /repo alters that internal signature the
    // tier cannot be built, which says nothing about the property - the compiled tiers above still decide.
    inprocess_tier(run);
    for k in ["merged_list", "ms_unit", "after", "nx", "float_percent", "non_ascending_keyframes"] {
        if labels.get(k).copied().unwrap_or(0) * 20 < all_cases {
            run.health_fail(format!("c15 generator: class {k} on fewer than 5% of cases"));
        }
    }
}

pub enum Outcome {
    Ok,
    Violation { check_case: serde_json::Value, detail: String },
    Infra(String),
}

fn report(run: &mut Run, check: &str, v: Vec<Outcome>) {
    for o in v {
        match o {
            Outcome::Ok => {}
            Outcome::Violation { check_case, detail } => run.record_violation(Violation { check: check.to_string(), case: check_case, detail }),
            Outcome::Infra(m) => run.health_fail(m),
        }
    }
}

pub fn run_positive(cases: &[C15Case], name: &str, slot: usize) -> Vec<Outcome> {
    let (src, lines) = pos_program(cases);
    let Ok(cr) = make_crate(name, &[("pos", src)], true) else { return vec![Outcome::Infra("cannot create crate".into())] };
    let descs: Vec<Vec<TlDesc>> = cases.iter().map(|c| c.sentences.iter().map(|s| reading(s, None)).collect()).collect();
    let descs_path = cr.dir.join("descs.json");
    std::fs::write(&descs_path, serde_json::to_string(&descs).unwrap()).unwrap();
    // second evaluation of the variable-valued cases: delay 8 -> 16 doubles `a`, duration 4 -> 2 halves `b`
    let descs2: Vec<Vec<TlDesc>> = descs
        .iter()
        .map(|ds| {
            ds.iter()
                .map(|d| {
                    let mut d = d.clone();
                    for k in d.kfs.iter_mut() {
                        k.a = k.a.map(|v| v * 2.0);
                        k.b = k.b.map(|v| v / 2.0);
                    }
                    d
                })
                .collect()
        })
        .collect();
    let descs2_path = cr.dir.join("descs2.json");
    std::fs::write(&descs2_path, serde_json::to_string(&descs2).unwrap()).unwrap();
    let (ok, diags, stderr) = build(&cr, "pos", slot);
    if !ok {
        // map errors back to cases
        let mut out = vec![];
        for d in &diags {
            if d.file == "src/pos.rs" {
                if let Some(i) = lines.iter().rposition(|l| *l <= d.line) {
                    if i < cases.len() && lines[i] == d.line {
                        out.push(Outcome::Violation {
                            check_case: serde_json::to_value(&cases[i]).unwrap(),
                            detail: format!("well-formed sentence does not compile: `timeline!(P {})`: {}", print_behavior(&cases[i].sentences, cases[i].bracket_single), d.message),
                        });
                        break;
                    }
                }
            }
        }
        if out.is_empty() {
            out.push(Outcome::Infra(format!("generated positive batch {name} failed to build for a reason not attributable to a case: {:?} {}", diags.first(), stderr)));
        }
        return out;
    }
    let (code, stdout, stderr) = run_bin(&cr, "pos", slot, &[descs_path.to_str().unwrap(), descs2_path.to_str().unwrap()]);
    let mut out = vec![];
    let mut seen = 0;
    for l in stdout.lines() {
        let Ok(v) = serde_json::from_str::<serde_json::Value>(l) else { continue };
        if v["second"] != true {
            seen += 1;
        }
        if v["ok"] != true {
            let i = v["case"].as_u64().unwrap_or(0) as usize;
            out.push(Outcome::Violation {
                check_case: serde_json::to_value(&cases[i]).unwrap(),
                detail: format!("`timeline!(P {})` differs from the builder reading {:?}: {}", print_behavior(&cases[i].sentences, cases[i].bracket_single), serde_json::to_string(&descs[i]).unwrap(), v["detail"].as_str().unwrap_or("")),
            });
            break;
        }
    }
    if seen != cases.len() && out.is_empty() {
        out.push(Outcome::Infra(format!("positive batch {name}: {seen} results for {} cases (exit {code}) {stderr}", cases.len())));
    }
    if std::env::var("VERIF_KEEP_GEN").is_err() {
        let _ = std::fs::remove_dir_all(&cr.dir);
    }
    out
}

pub fn run_negative(muts: &[Mutant], name: &str, slot: usize) -> Vec<Outcome> {
    let (src, lines) = neg_program(muts);
    let Ok(cr) = make_crate(name, &[("neg", src)], true) else { return vec![Outcome::Infra("cannot create crate".into())] };
    let (ok, diags, _stderr) = build(&cr, "neg", slot);
    let mut out = vec![];
    let errored: std::collections::HashSet<u32> = diags.iter().filter(|d| d.file == "src/neg.rs").map(|d| d.line).collect();
    if ok && !muts.is_empty() {
        out.push(Outcome::Violation { check_case: serde_json::to_value(&muts[0]).unwrap(), detail: format!("a file of {} ill-formed timeline! sentences compiled without any error, e.g. `timeline!(P {})`", muts.len(), muts[0].text) });
    } else {
        for (i, m) in muts.iter().enumerate() {
            if !errored.contains(&lines[i]) {
                out.push(Outcome::Violation { check_case: serde_json::to_value(m).unwrap(), detail: format!("ill-formed sentence ({}) was accepted silently: `timeline!(P {})` produced no compile error", m.kind, m.text) });
                break;
            }
        }
    }
    if std::env::var("VERIF_KEEP_GEN").is_err() {
        let _ = std::fs::remove_dir_all(&cr.dir);
    }
    out
}

pub const INPROC_RULE: &str = "proptest (with shrinking): the same sentence grammar fed directly to the macro's parser and expander (macros/src/fn_timeline.rs included by path); the expansion is read back as a builder method chain (syn) and compared with the documented reading: setters present iff the argument was written, durations/delays/positions within 2 ulp of the real value, repeat/reverse/easing equal, keyframes in written order with exactly the written fields and values, merged lists member by member in order; non-trivial = >= 3 argument kinds or a merged list";
pub const INPROC_REJ_RULE: &str = "proptest: a generated sentence, one of its one-token ill-formed mutants (kinds as in c15_rejection); the macro's parser/expander must return an error; non-trivial = every case (each is an ill-formed sentence); distinct = hash of the mutant";

/// Runs `harness/target/release/inproc` (built by ./run when it can be) and folds its numbers in.
fn inprocess_tier(run: &mut Run) {
    let root = mv_engine::verif_root();
    let bin = root.join("harness/target/release/inproc");
    if !bin.exists() {
        println!("NOTE property=C15 in-process tier not available (harness/mv-inproc does not build against this tree; see work/logs/build-mv-inproc-release.log); compiled tiers decide");
        run.extra("c15_inprocess_tier", json!("unavailable: mv-inproc does not build against this tree (a crate-internal signature of macros/src/fn_timeline.rs differs); the compiled tiers decide"));
        return;
    }
    let stats = root.join("work").join(format!("c15-inproc-{}.json", std::process::id()));
    let child = std::process::Command::new(&bin).arg("C15").arg(run.tier.name()).env("VERIF_SEED", run.seed.to_string()).env("INPROC_STATS", &stats).output();
    let child = match child {
        Ok(o) => o,
        Err(e) => {
            run.health_fail(format!("cannot run {}: {e}", bin.display()));
            return;
        }
    };
    for l in String::from_utf8_lossy(&child.stdout).lines() {
        if l.starts_with("VIOLATION ") || l.starts_with("  check=") || l.starts_with("KNOWN-FINDING") {
            println!("{l}");
        }
    }
    let code = child.status.code().unwrap_or(2);
    if code == 1 {
        run.note_external_violation("c15_inprocess", "violation found by the in-process tier (see VIOLATION line above)");
    } else if code != 0 {
        run.health_fail(format!("in-process tier exited with {code}: {}", String::from_utf8_lossy(&child.stderr).chars().take(600).collect::<String>()));
    }
    if let Ok(st) = std::fs::read_to_string(&stats) {
        if let Ok(v) = serde_json::from_str::<serde_json::Value>(&st) {
            for (name, rule) in [("c15_inprocess", INPROC_RULE), ("c15_inprocess_rejection", INPROC_REJ_RULE)] {
                let s = &v[name];
                if s.is_null() {
                    continue;
                }
                run.external(
                    name,
                    "proptest (child process harness/mv-inproc)",
                    rule,
                    s["cases"].as_u64().unwrap_or(0),
                    s["distinct_nontrivial"].as_u64().unwrap_or(0),
                    s["samples"].as_array().cloned().unwrap_or_default().into_iter().take(3).collect(),
                    s["wall_s"].as_f64().unwrap_or(0.0),
                );
            }
            run.extra("c15_inprocess_tier", json!({"available": true, "merged_list_fraction": v["merged_list_fraction"], "unreadable_expansions": v["unreadable"]}));
        }
    }
    let _ = std::fs::remove_file(&stats);
}

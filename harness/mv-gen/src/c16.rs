//! C16: `animator!` == `StateAnimatorBuilder` under the documented reading, over operation histories.

use crate::c15::{print_behavior, reading, sentence_strategy, Outcome, Sentence};
use crate::harness::*;
use mv_core::anim::{AOp, Step};
use mv_core::desc::{TlDesc, Vals, PROP_NAMES};
use mv_engine::{Run, Tier, Violation};
use mv_model::Rep;
use proptest::prelude::*;
use serde::{Deserialize, Serialize};
use serde_json::json;

#[derive(Clone, Debug, Serialize, Deserialize)]
pub enum DefaultValues {
    /// `default(State)` only
    None,
    /// `default(State, { field: value, ... })`: fields not listed keep the type's Default
    Inline(Vec<(usize, f64)>),
    /// `default(State, EXPR)`: the expression is used as is
    Expr(Vals),
}

#[derive(Clone, Debug, Serialize, Deserialize)]
pub struct Arm {
    pub states: Vec<u8>,
    pub behavior: Vec<Sentence>,
    pub bracket_single: bool,
}

#[derive(Clone, Debug, Serialize, Deserialize)]
pub struct Block {
    /// None = no default clause at all
    pub default: Option<(u8, DefaultValues)>,
    pub arms: Vec<Arm>,
    pub trailing_comma: bool,
    /// how state names are written in the macro: 0 = `St::S1`, 1 = bare `S1` (with `use St::*` in
    /// scope), 2 = `crate::St::S1`
    #[serde(default)]
    pub state_spelling: u8,
}

#[derive(Clone, Debug, Serialize, Deserialize)]
pub struct C16Case {
    pub block: Block,
    pub ops: Vec<AOp>,
}

fn small_vals() -> impl Strategy<Value = Vals> {
    ((-40i32..=40), (-40i32..=40), -1000i32..=1000, any::<u8>()).prop_map(|(a, b, c, d)| Vals { a: a as f32 / 4.0, b: b as f32 / 2.0, c, d })
}

fn block_strategy() -> impl Strategy<Value = Block> {
    let dv = prop_oneof![
        2 => Just(DefaultValues::None),
        4 => prop::collection::vec(any::<bool>(), 4).prop_flat_map(|mask| {
            let picks: Vec<usize> = mask.iter().enumerate().filter(|(_, m)| **m).map(|(i, _)| i).collect();
            let strategies: Vec<BoxedStrategy<(usize, f64)>> = picks
                .into_iter()
                .map(|i| match i {
                    0 | 1 => (-100i32..=100).prop_map(move |v| (i, v as f64 / 4.0)).boxed(),
                    2 => (-1000i32..=1000).prop_map(move |v| (i, v as f64)).boxed(),
                    _ => (0u32..=255).prop_map(move |v| (i, v as f64)).boxed(),
                })
                .collect();
            strategies
        }).prop_map(DefaultValues::Inline),
        3 => small_vals().prop_map(DefaultValues::Expr),
    ];
    let default = prop::option::weighted(0.8, (0u8..5, dv));
    // partition (a subset of) the 5 states into arms
    let arms = (prop::collection::vec(0u8..4, 5), prop::collection::vec((prop::collection::vec(sentence_strategy(true, true), 1..=3), any::<bool>(), any::<bool>()), 3)).prop_map(|(assign, behaviors)| {
        // assign[s] in 0..3 = arm index, 3 = state not mentioned
        let mut arms: Vec<Arm> = vec![];
        for (ai, (sentences, merged, bracket_single)) in behaviors.into_iter().enumerate() {
            let states: Vec<u8> = (0u8..5).filter(|s| assign[*s as usize] as usize == ai).collect();
            if states.is_empty() {
                continue;
            }
            let behavior = if merged { sentences } else { vec![sentences[0].clone()] };
            arms.push(Arm { states, behavior, bracket_single });
        }
        // now and then a later arm refines a state that an earlier group already covered
        // (`A | B => common, B => specific`): like successive `.on()` calls, the later one wins
        if arms.len() >= 2 && assign[0] % 2 == 0 && assign[4] == 3 {
            let s0 = arms[0].states[0];
            let last = arms.len() - 1;
            if !arms[last].states.contains(&s0) {
                arms[last].states.push(s0);
            }
        }
        arms
    });
    (default, arms, any::<bool>(), prop_oneof![4 => Just(0u8), 1 => Just(1u8), 1 => Just(2u8)]).prop_map(|(default, arms, trailing_comma, state_spelling)| Block { default, arms, trailing_comma, state_spelling })
}

fn ops_strategy() -> impl Strategy<Value = Vec<AOp>> {
    let op = prop_oneof![
        5 => prop_oneof![Just(Step::Zero), prop::sample::select(vec![32u32, 128, 256, 512, 1536]).prop_map(Step::Grid), (0.0f32..3.0).prop_map(Step::Arb)].prop_map(AOp::Adv),
        4 => (0u8..5).prop_map(AOp::Set),
    ];
    prop::collection::vec(op, 4..=20)
}

pub fn c16_strategy() -> impl Strategy<Value = C16Case> {
    (block_strategy(), ops_strategy()).prop_map(|(block, ops)| C16Case { block, ops })
}

fn defaults_of(b: &Block) -> (u8, Vals) {
    let zero = Vals { a: 0.0, b: 0.0, c: 0, d: 0 };
    match &b.default {
        None => (2, zero), // no default clause: the state type's Default (S2, deliberately not the first variant)
        Some((s, DefaultValues::None)) => (*s, zero),
        Some((s, DefaultValues::Inline(f))) => {
            let mut v = zero;
            for (p, x) in f {
                match p {
                    0 => v.a = *x as f32,
                    1 => v.b = *x as f32,
                    2 => v.c = *x as i32,
                    _ => v.d = *x as u8,
                }
            }
            (*s, v)
        }
        Some((s, DefaultValues::Expr(v))) => (*s, *v),
    }
}

fn vals_expr(v: &Vals) -> String {
    format!("Q {{ a: {}, b: {}, c: {}, d: {}, s: 0.0, z: 0 }}", f32_lit(v.a), f32_lit(v.b), v.c, v.d)
}

fn print_macro(b: &Block, idx: usize) -> String {
    let mut parts = vec![];
    let mut head = String::new();
    let sp = |s: &u8| match b.state_spelling % 3 {
        1 => format!("S{s}"),
        2 => format!("crate::St::S{s}"),
        _ => format!("St::S{s}"),
    };
    if let Some((s, dv)) = &b.default {
        head = match dv {
            DefaultValues::None => format!("default({}), ", sp(s)),
            DefaultValues::Inline(f) => format!("default({}, {{ {} }}), ", sp(s), f.iter().map(|(p, v)| format!("{}: {}", PROP_NAMES[*p], crate::c15::field_text(*p, *v))).collect::<Vec<_>>().join(", ")),
            // an expression "is used as is", however it is spelled: a constant, a struct literal with a
            // functional-update base, a call of a function that returns something else every time it is called (the
            // expression is evaluated once: `default` keyframes repeat the INITIAL values); a `{ ... }` block would
            // read as inline fields
            DefaultValues::Expr(v) => match v.d % 3 {
                1 => format!("default({}, Q {{ a: {}, ..DV_{idx} }}), ", sp(s), f32_lit(v.a)),
                2 => format!("default({}, dv_{idx}()), ", sp(s)),
                _ => format!("default({}, DV_{idx}), ", sp(s)),
            },
        };
    }
    for arm in &b.arms {
        let st = arm.states.iter().map(|s| sp(s)).collect::<Vec<_>>().join(" | ");
        parts.push(format!("{st} => {}", print_behavior(&arm.behavior, arm.bracket_single)));
    }
    let prefix = if b.state_spelling % 3 == 1 { "use St::*; " } else { "" };
    format!("{prefix}animator!(Q {{ {head}{}{} }})", parts.join(", "), if b.trailing_comma && !parts.is_empty() { "," } else { "" })
}

fn print_tl_builder(d: &TlDesc) -> String {
    let mut s = format!("Q::timeline().duration_seconds({}).delay_seconds({})", f32_lit(d.timing.cycle), f32_lit(d.timing.delay));
    s += &match d.timing.repeat {
        Rep::None => String::new(),
        Rep::Times(n) => format!(".repeat(Repeat::Times({n}))"),
        Rep::Infinite => ".repeat(Repeat::Infinite)".to_string(),
    };
    if d.timing.reverse {
        s += ".reverse(true)";
    }
    s += &format!(".default_easing(Easing::{:?})", d.default_ez);
    for k in &d.kfs {
        let mut kb = format!("Q::keyframe({})", f32_lit(k.pos));
        if let Some(v) = k.a {
            kb += &format!(".a({})", f32_lit(v));
        }
        if let Some(v) = k.b {
            kb += &format!(".b({})", f32_lit(v));
        }
        if let Some(v) = k.c {
            kb += &format!(".c({v})");
        }
        if let Some(v) = k.d {
            kb += &format!(".d({v})");
        }
        s += &format!(".keyframe({kb})");
    }
    s
}

fn print_builder(b: &Block) -> String {
    let (st, dv) = defaults_of(b);
    let mut s = format!("StateAnimatorBuilder::new().from_state(St::S{st}).from_values({})", vals_expr(&dv));
    for arm in &b.arms {
        let descs: Vec<TlDesc> = arm.behavior.iter().map(|x| reading(x, Some(&dv))).collect();
        for state in &arm.states {
            if descs.len() == 1 {
                s += &format!(".on(St::S{state}, {})", print_tl_builder(&descs[0]));
            } else {
                s += &format!(".on(St::S{state}, MergedTimeline::of([{}]))", descs.iter().map(|d| format!("TimelineBuilder::build({})", print_tl_builder(d))).collect::<Vec<_>>().join(", "));
            }
        }
    }
    s + ".build()"
}

const PRELUDE: &str = r#"// generated by mv-gen (C16 batch)
#![allow(unused_imports, unused_mut, clippy::all)]
use mina::prelude::*;
use mv_core::anim::{AOp, Step};

#[derive(Animate, Clone, Debug, Default, PartialEq)]
pub struct Q {
    #[animate] pub a: f32,
    #[animate] pub b: f32,
    #[animate] pub c: i32,
    #[animate] pub d: u8,
    pub s: f32,
    pub z: i32,
}

#[derive(Clone, Copy, Debug, Default, PartialEq, Eq, State)]
pub enum St { S0, S1, #[default] S2, S3, S4 }
const STATES: [St; 5] = [St::S0, St::S1, St::S2, St::S3, St::S4];
type Anim = EnumStateAnimator<St, QTimeline>;

fn bits(q: &Q) -> [u64; 6] {
    [q.a.to_bits() as u64, q.b.to_bits() as u64, q.c as u32 as u64, q.d as u64, q.s.to_bits() as u64, q.z as u32 as u64]
}

fn compare(mut m: Anim, mut b: Anim, ops: &[AOp]) -> Result<serde_json::Value, String> {
    fn check(m: &Anim, b: &Anim, what: &str) -> Result<(), String> {
        if m.current_state() != b.current_state() {
            return Err(format!("{what}: current_state {:?} vs builder {:?}", m.current_state(), b.current_state()));
        }
        if bits(m.current_values()) != bits(b.current_values()) && m.current_values() != b.current_values() {
            return Err(format!("{what}: current_values {:?} vs builder {:?}", m.current_values(), b.current_values()));
        }
        if m.is_ended() != b.is_ended() {
            return Err(format!("{what}: is_ended {} vs builder {}", m.is_ended(), b.is_ended()));
        }
        Ok(())
    }
    check(&m, &b, "initially")?;
    let mut transitions = 0;
    for (n, op) in ops.iter().enumerate() {
        match *op {
            AOp::Adv(step) => {
                let dt = match step { Step::Zero => 0.0, Step::Grid(n) => n as f32 / 512.0, Step::Arb(x) => x.max(0.0), Step::ToEnd { .. } | Step::ToEndCycles { .. } | Step::ToEndUlps { .. } => 0.125 };
                m.advance(dt);
                b.advance(dt);
                check(&m, &b, &format!("after op {n} advance({dt})"))?;
            }
            AOp::Set(s) => {
                let st = STATES[s as usize % 5];
                if &st != b.current_state() { transitions += 1; }
                m.set_state(&st);
                b.set_state(&st);
                check(&m, &b, &format!("after op {n} set_state({:?})", st))?;
            }
        }
    }
    Ok(serde_json::json!({"ops": ops.len(), "transitions": transitions}))
}

"#;

fn program(cases: &[C16Case]) -> (String, Vec<(u32, u32)>) {
    let mut src = String::from(PRELUDE);
    let mut lines = vec![];
    let mut line = src.lines().count() as u32 + 1;
    for (i, c) in cases.iter().enumerate() {
        if let Some((_, DefaultValues::Expr(v))) = &c.block.default {
            src += &format!("const DV_{i}: Q = {}; fn dv_{i}() -> Q {{ static CALLS: std::sync::atomic::AtomicU32 = std::sync::atomic::AtomicU32::new(0); let n = CALLS.fetch_add(1, std::sync::atomic::Ordering::SeqCst); Q {{ a: DV_{i}.a + 64.0 * n as f32, ..DV_{i} }} }}\n", vals_expr(v));
            line += 1;
        }
        src += &format!("fn m_{i}() -> Anim {{ {} }}\n", print_macro(&c.block, i));
        src += &format!("fn b_{i}() -> Anim {{ {} }}\n", print_builder(&c.block));
        lines.push((line, line + 1));
        line += 2;
    }
    src += "\nfn main() {\n    let ops: Vec<Vec<AOp>> = serde_json::from_str(&std::fs::read_to_string(std::env::args().nth(1).unwrap()).unwrap()).unwrap();\n    let mut i = 0;\n";
    src += "    macro_rules! go { ($m:ident, $b:ident) => {{ let r = std::panic::catch_unwind(|| compare($m(), $b(), &ops[i])); let line = match r { Ok(Ok(v)) => serde_json::json!({\"case\": i, \"ok\": true, \"info\": v}), Ok(Err(e)) => serde_json::json!({\"case\": i, \"ok\": false, \"detail\": e}), Err(_) => serde_json::json!({\"case\": i, \"ok\": false, \"detail\": \"panic\"}) }; println!(\"{}\", line); i += 1; }} }\n";
    for i in 0..cases.len() {
        src += &format!("    go!(m_{i}, b_{i});\n");
    }
    src += "    let _ = i;\n}\n";
    (src, lines)
}

fn nontrivial(c: &C16Case) -> bool {
    let b = &c.block;
    let structural = b.arms.iter().any(|a| a.states.len() > 1 || a.behavior.len() > 1) || b.arms.iter().any(|a| a.behavior.iter().any(|s| s.args.iter().any(|x| matches!(x, crate::c15::Arg::Kf(k) if k.default_body))));
    let mut cur = defaults_of(b).0;
    let mut transitions = 0;
    for op in &c.ops {
        if let AOp::Set(s) = op {
            if *s % 5 != cur {
                transitions += 1;
                cur = *s % 5;
            }
        }
    }
    structural && transitions >= 2
}

pub fn run_batch(cases: &[C16Case], name: &str, slot: usize) -> Vec<Outcome> {
    let (src, lines) = program(cases);
    let Ok(cr) = make_crate(name, &[("anim", src)], true) else { return vec![Outcome::Infra("cannot create crate".into())] };
    let ops: Vec<&Vec<AOp>> = cases.iter().map(|c| &c.ops).collect();
    let ops_path = cr.dir.join("ops.json");
    std::fs::write(&ops_path, serde_json::to_string(&ops).unwrap()).unwrap();
    let (ok, diags, stderr) = build(&cr, "anim", slot);
    let mut out = vec![];
    if !ok {
        for d in &diags {
            if d.file == "src/anim.rs" {
                if let Some(i) = lines.iter().position(|(m, b)| d.line == *m || d.line == *b) {
                    let which = if d.line == lines[i].0 { "animator! block" } else { "builder reading (generator bug?)" };
                    if d.line == lines[i].0 {
                        out.push(Outcome::Violation { check_case: serde_json::to_value(&cases[i]).unwrap(), detail: format!("well-formed {which} does not compile: `{}`: {}", print_macro(&cases[i].block, i), d.message) });
                    } else {
                        out.push(Outcome::Infra(format!("{which} does not compile: {} : {}", print_builder(&cases[i].block), d.message)));
                    }
                    break;
                }
            }
        }
        if out.is_empty() {
            out.push(Outcome::Infra(format!("generated batch {name} failed to build: {:?} {}", diags.first(), stderr)));
        }
        return out;
    }
    let (code, stdout, stderr) = run_bin(&cr, "anim", slot, &[ops_path.to_str().unwrap()]);
    let mut seen = 0;
    for l in stdout.lines() {
        let Ok(v) = serde_json::from_str::<serde_json::Value>(l) else { continue };
        seen += 1;
        if v["ok"] != true {
            let i = v["case"].as_u64().unwrap_or(0) as usize;
            out.push(Outcome::Violation {
                check_case: serde_json::to_value(&cases[i]).unwrap(),
                detail: format!("`{}` behaves differently from `{}`: {}", print_macro(&cases[i].block, i), print_builder(&cases[i].block), v["detail"].as_str().unwrap_or("")),
            });
            break;
        }
    }
    if seen != cases.len() && out.is_empty() {
        out.push(Outcome::Infra(format!("batch {name}: {seen} results for {} cases (exit {code}) {stderr}", cases.len())));
    }
    if std::env::var("VERIF_KEEP_GEN").is_err() {
        let _ = std::fs::remove_dir_all(&cr.dir);
    }
    out
}

/// Candidate simplifications of a failing case (one step each).
fn shrink_candidates(c: &C16Case) -> Vec<C16Case> {
    let mut out = vec![];
    let b = &c.block;
    // fewer operations
    if c.ops.len() > 1 {
        out.push(C16Case { block: b.clone(), ops: c.ops[..c.ops.len() / 2].to_vec() });
        out.push(C16Case { block: b.clone(), ops: c.ops[c.ops.len() / 2..].to_vec() });
        for i in 0..c.ops.len().min(12) {
            let mut ops = c.ops.clone();
            ops.remove(i);
            out.push(C16Case { block: b.clone(), ops });
        }
    }
    // fewer / simpler arms
    for i in 0..b.arms.len() {
        let mut nb = b.clone();
        nb.arms.remove(i);
        out.push(C16Case { block: nb, ops: c.ops.clone() });
        if b.arms[i].states.len() > 1 {
            let mut nb = b.clone();
            nb.arms[i].states.truncate(1);
            out.push(C16Case { block: nb, ops: c.ops.clone() });
        }
        if b.arms[i].behavior.len() > 1 {
            for k in 0..b.arms[i].behavior.len() {
                let mut nb = b.clone();
                nb.arms[i].behavior.remove(k);
                out.push(C16Case { block: nb, ops: c.ops.clone() });
            }
        }
        for (si, s) in b.arms[i].behavior.iter().enumerate() {
            for ai in 0..s.args.len() {
                let mut nb = b.clone();
                nb.arms[i].behavior[si].args.remove(ai);
                out.push(C16Case { block: nb, ops: c.ops.clone() });
            }
        }
    }
    // simpler default clause
    match &b.default {
        Some((s, DefaultValues::Inline(f))) if !f.is_empty() => {
            let mut nb = b.clone();
            nb.default = Some((*s, DefaultValues::Inline(f[1..].to_vec())));
            out.push(C16Case { block: nb, ops: c.ops.clone() });
        }
        Some((s, DefaultValues::Expr(_))) => {
            let mut nb = b.clone();
            nb.default = Some((*s, DefaultValues::None));
            out.push(C16Case { block: nb, ops: c.ops.clone() });
        }
        _ => {}
    }
    out.truncate(120);
    out
}

/// Batch shrinking: all one-step simplifications of the failing case are compiled together; the
/// first one that still fails becomes the new case; repeat until none fails.
fn shrink(case: C16Case, detail: String) -> (C16Case, String) {
    let mut cur = case;
    let mut cur_detail = detail;
    for round in 0..25 {
        let cands = shrink_candidates(&cur);
        if cands.is_empty() {
            break;
        }
        let fails = failing_indices(&cands, &format!("c16-shrink-{round}"));
        match fails.first() {
            Some((i, d)) => {
                cur = cands[*i].clone();
                cur_detail = d.clone();
            }
            None => break,
        }
    }
    (cur, cur_detail)
}

/// Runs the cases as one generated program and returns (index, detail) of every failing case.
fn failing_indices(cases: &[C16Case], name: &str) -> Vec<(usize, String)> {
    let (src, _lines) = program(cases);
    let Ok(cr) = make_crate(name, &[("anim", src)], true) else { return vec![] };
    let ops: Vec<&Vec<AOp>> = cases.iter().map(|c| &c.ops).collect();
    let ops_path = cr.dir.join("ops.json");
    let _ = std::fs::write(&ops_path, serde_json::to_string(&ops).unwrap());
    let (ok, _diags, _stderr) = build(&cr, "anim", 0);
    let mut out = vec![];
    if ok {
        let (_code, stdout, _stderr) = run_bin(&cr, "anim", 0, &[ops_path.to_str().unwrap()]);
        for l in stdout.lines() {
            let Ok(v) = serde_json::from_str::<serde_json::Value>(l) else { continue };
            if v["ok"] != true {
                let i = v["case"].as_u64().unwrap_or(0) as usize;
                out.push((i, format!("`{}` behaves differently from `{}`: {}", print_macro(&cases[i].block, i), print_builder(&cases[i].block), v["detail"].as_str().unwrap_or(""))));
            }
        }
    }
    let _ = std::fs::remove_dir_all(&cr.dir);
    out
}

pub fn c16(run: &mut Run) {
    run.assume("documented reading of animator!: default(state, values) = initial state and values (inline fields on top of Default, expression as is, omitted = Default), `default` keyframe body = those initial values, A | B installs the same timeline for each state, bracketed list = merged timeline, unmentioned states have no timeline; durations/positions restricted to forms whose unit conversion is exact so that everything is compared bit for bit (unit conversion is C15's subject)");
    run.assume("the animated struct is defined in the generated program's own module: `default` keyframes rely on a private helper of the derive output");
    if let mv_engine::Mode::Replay { case, .. } = &run.mode {
        if let Ok(c) = serde_json::from_value::<C16Case>(case.clone()) {
            for o in run_batch(&[c], "c16-replay", 0) {
                match o {
                    Outcome::Ok => {}
                    Outcome::Violation { check_case, detail } => run.record_violation(Violation { check: "c16_compiled".into(), case: check_case, detail }),
                    Outcome::Infra(m) => run.health_fail(m),
                }
            }
            run.mark_replay_ran();
            println!("REPLAY property=C16 check=c16_compiled done");
        }
        return;
    }
    let t0 = std::time::Instant::now();
    let batches = if run.tier == Tier::Quick { 12 } else { 600 };
    let per = 150usize;
    let seed = run.seed;
    let mut results = par_batches(batches, slots_for(batches), |b, slot| run_batch(&generate(&c16_strategy(), seed, &format!("c16-{b}"), per), &format!("c16-{b}"), slot), |r| any_not_ok(r));
    let mut total = 0u64;
    let mut nontriv = std::collections::HashSet::new();
    let mut samples = vec![];
    let mut classes: std::collections::BTreeMap<&str, u64> = Default::default();
    for b in 0..batches {
        let cases = generate(&c16_strategy(), run.seed, &format!("c16-{b}"), per);
        for (i, c) in cases.iter().enumerate() {
            if nontrivial(c) {
                nontriv.insert(mv_engine::case_key(c));
                if samples.len() < 3 {
                    samples.push(json!({"macro": print_macro(&c.block, i), "builder": print_builder(&c.block), "ops": c.ops}));
                }
            }
            let bl = &c.block;
            let mut bump = |k: &'static str| *classes.entry(k).or_default() += 1;
            match &bl.default {
                None => bump("no_default_clause"),
                Some((_, DefaultValues::None)) => bump("default_state_only"),
                Some((_, DefaultValues::Inline(_))) => bump("inline_defaults"),
                Some((_, DefaultValues::Expr(_))) => bump("expression_defaults"),
            }
            if bl.arms.iter().any(|a| a.states.len() > 1) {
                bump("multi_state_arm");
            }
            if bl.arms.iter().any(|a| a.behavior.len() > 1) {
                bump("merged_arm");
            }
            if bl.arms.iter().any(|a| a.behavior.iter().any(|s| s.args.iter().any(|x| matches!(x, crate::c15::Arg::Kf(k) if k.default_body)))) {
                bump("default_keyframe");
            }
            if (0u8..5).any(|s| !bl.arms.iter().any(|a| a.states.contains(&s))) {
                bump("unmentioned_state");
            }
        }
        total += cases.len() as u64;
        let Some(outcomes) = results[b].take() else { break };
        for o in outcomes {
            match o {
                Outcome::Ok => {}
                Outcome::Violation { check_case, detail } => {
                    // shrink run-time differences (a block that does not compile is reported as is)
                    let (case, detail) = match serde_json::from_value::<C16Case>(check_case.clone()) {
                        Ok(c) if detail.contains("behaves differently") => {
                            let (c, d) = shrink(c, detail);
                            (serde_json::to_value(&c).unwrap(), d)
                        }
                        _ => (check_case, detail),
                    };
                    run.record_violation(Violation { check: "c16_compiled".into(), case, detail })
                }
                Outcome::Infra(m) => run.health_fail(m),
            }
        }
        if run.violation_count() > 0 {
            break;
        }
    }
    run.extra("c16_generator_classes", json!(classes));
    run.external(
        "c16_compiled",
        "generated programs (compiled differential)",
        "proptest-generated animator! blocks (with/without default clause; state-only, inline and expression defaults; single-state, A | B | C and bracketed merged arms; from/to/N% default keyframes; unmentioned states) paired with the StateAnimatorBuilder program of the documented reading and a history of 4-20 advance/set_state operations; both animators compared bit for bit (state, values, is_ended) after every operation; non-trivial = block uses a multi-state or merged arm or a default keyframe AND the history makes >= 2 transitions; distinct = hash of the case",
        total,
        nontriv.len() as u64,
        samples,
        t0.elapsed().as_secs_f64(),
    );
    for k in ["inline_defaults", "expression_defaults", "multi_state_arm", "merged_arm", "default_keyframe", "unmentioned_state", "no_default_clause"] {
        if classes.get(k).copied().unwrap_or(0) * 20 < total {
            run.health_fail(format!("c16 generator: class {k} on fewer than 5% of blocks"));
        }
    }
}

//! Program generator for the compiled checks (C15-C17): grammar of `timeline!` / `animator!`
//! sentences, struct shapes, documented readings, cargo driver.
pub mod c15;
pub mod c16;
pub mod c17;
pub mod harness;

//! `gen C15|C16|C17 quick|thorough` / `gen replay <id> <file>`: generated-program checks.
//!
//! Cases are drawn from proptest strategies (RNG seeded from VERIF_SEED), printed as Rust source,
//! compiled against /repo's working tree in batches and executed; the oracle runs inside the generated
//! program (differential macro vs builder, or vs the dynamic reference model). Ill-formed inputs are
//! compiled in a separate file and every one of them must be rejected by the compiler.

use mv_gen::{c15, c16, c17, harness};

use mv_engine::Run;

fn main() {
    let args: Vec<String> = std::env::args().skip(1).collect();
    if args.first().map(|s| s.as_str()) == Some("warmup") {
        // pre-builds the dependencies of generated crates (mina, mv-core, serde_json, ...) so that the
        // first generated batch does not pay for them
        let src = "use mina::prelude::*;\nuse mv_core::desc::P;\nfn main() { let _ = timeline!(P 1s to { a: 1.0 }); }\n".to_string();
        let res = harness::par_batches(
            harness::QUICK_SLOTS,
            harness::QUICK_SLOTS,
            |b, slot| match harness::make_crate(&format!("warmup-{b}"), &[("warm", src.clone())], true) {
                Ok(c) => {
                    let (ok, diags, err) = harness::build(&c, "warm", slot);
                    let _ = std::fs::remove_dir_all(&c.dir);
                    if ok { Ok(()) } else { Err(format!("warmup build failed: {:?} {}", diags.first(), err)) }
                }
                Err(e) => Err(format!("warmup: {e}")),
            },
            |_| false,
        );
        for r in res {
            if let Some(Err(e)) = r {
                eprintln!("{e}");
                std::process::exit(2);
            }
        }
        std::process::exit(0);
    }
    let Some(mut run) = Run::from_args(&args) else {
        eprintln!("usage: gen <C15|C16|C17> [quick|thorough] | gen replay <Cnn> <file>");
        std::process::exit(2);
    };
    mv_engine::quiet_panics();
    match run.id.as_str() {
        "C15" => c15::c15(&mut run),
        "C16" => c16::c16(&mut run),
        "C17" => c17::c17(&mut run),
        other => {
            eprintln!("unknown property {other}");
            std::process::exit(2);
        }
    }
    std::process::exit(run.finish());
}

//! Generated crates: layout, build (with rustc JSON diagnostics) and execution.

use std::path::{Path, PathBuf};
use std::process::Command;

pub const REPO: &str = "/repo";

pub fn harness_dir() -> PathBuf {
    Path::new(env!("CARGO_MANIFEST_DIR")).parent().unwrap().to_path_buf()
}

pub fn work_dir() -> PathBuf {
    mv_engine::verif_root().join("work").join("gen")
}

#[derive(Debug, Clone)]
pub struct Diag {
    pub file: String,
    pub line: u32,
    pub level: String,
    pub code: Option<String>,
    pub message: String,
}

pub struct Crate {
    pub dir: PathBuf,
}

/// Creates (or overwrites) a generated crate `name` with the given binaries (name, source).
pub fn make_crate(name: &str, bins: &[(&str, String)], with_mv_core: bool) -> std::io::Result<Crate> {
    let dir = work_dir().join(name);
    let _ = std::fs::remove_dir_all(&dir);
    std::fs::create_dir_all(dir.join("src"))?;
    let h = harness_dir();
    let mut toml = String::from("[package]\nname = \"genprog\"\nversion = \"0.0.0\"\nedition = \"2021\"\n\n[workspace]\n\n[dependencies]\n");
    toml += &format!("mina = {{ path = \"{}\" }}\nenum-map = \"2.5.0\"\nserde_json = \"1\"\n", REPO);
    if with_mv_core {
        toml += &format!("mv-core = {{ path = \"{}\", default-features = false }}\nmv-model = {{ path = \"{}\" }}\n", h.join("mv-core").display(), h.join("mv-model").display());
    }
    toml += "\n[profile.dev]\nopt-level = 0\ndebug = false\nincremental = false\n";
    for (b, src) in bins {
        toml += &format!("\n[[bin]]\nname = \"{b}\"\npath = \"src/{b}.rs\"\n");
        std::fs::write(dir.join("src").join(format!("{b}.rs")), src)?;
    }
    std::fs::write(dir.join("Cargo.toml"), toml)?;
    std::fs::copy(h.join("Cargo.lock"), dir.join("Cargo.lock"))?;
    Ok(Crate { dir })
}

fn target_dir(slot: usize) -> PathBuf {
    mv_engine::verif_root().join("work").join(format!("gen-target-{slot}"))
}

/// Builds one binary; returns (success, diagnostics of the generated source files).
pub fn build(c: &Crate, bin: &str, slot: usize) -> (bool, Vec<Diag>, String) {
    let out = Command::new("cargo")
        .args(["build", "--offline", "--message-format=json", "--bin", bin])
        .current_dir(&c.dir)
        .env("CARGO_TARGET_DIR", target_dir(slot))
        .env("CARGO_NET_OFFLINE", "true")
        .env("RUSTFLAGS", "-Awarnings")
        .output();
    let out = match out {
        Ok(o) => o,
        Err(e) => return (false, vec![], format!("cannot run cargo: {e}")),
    };
    let mut diags = vec![];
    for line in String::from_utf8_lossy(&out.stdout).lines() {
        let Ok(v) = serde_json::from_str::<serde_json::Value>(line) else { continue };
        if v["reason"] != "compiler-message" {
            continue;
        }
        let m = &v["message"];
        let level = m["level"].as_str().unwrap_or("").to_string();
        if level != "error" {
            continue;
        }
        let code = m["code"]["code"].as_str().map(|s| s.to_string());
        let msg = m["message"].as_str().unwrap_or("").to_string();
        let mut pushed = false;
        if let Some(spans) = m["spans"].as_array() {
            for s in spans {
                if s["is_primary"].as_bool() == Some(true) {
                    // walk the macro expansion chain down to the span in the generated file
                    let mut cur = s.clone();
                    loop {
                        let f = cur["file_name"].as_str().unwrap_or("").to_string();
                        if f.starts_with("src/") {
                            diags.push(Diag { file: f, line: cur["line_start"].as_u64().unwrap_or(0) as u32, level: level.clone(), code: code.clone(), message: msg.clone() });
                            pushed = true;
                            break;
                        }
                        let next = cur["expansion"]["span"].clone();
                        if next.is_null() {
                            break;
                        }
                        cur = next;
                    }
                }
            }
        }
        if !pushed {
            diags.push(Diag { file: String::new(), line: 0, level, code, message: msg });
        }
    }
    (out.status.success(), diags, String::from_utf8_lossy(&out.stderr).chars().rev().take(1500).collect::<String>().chars().rev().collect())
}

pub fn run_bin(c: &Crate, bin: &str, slot: usize, args: &[&str]) -> (i32, String, String) {
    let exe = target_dir(slot).join("debug").join(bin);
    match Command::new(exe).args(args).current_dir(&c.dir).output() {
        Ok(o) => (o.status.code().unwrap_or(-1), String::from_utf8_lossy(&o.stdout).to_string(), String::from_utf8_lossy(&o.stderr).to_string()),
        Err(e) => (-1, String::new(), format!("{e}")),
    }
}

/// Deterministic case generation with proptest strategies (no shrinking: compiled batches).
pub fn generate<S: proptest::strategy::Strategy>(strategy: &S, seed: u64, tag: &str, n: usize) -> Vec<S::Value> {
    use proptest::strategy::ValueTree;
    use proptest::test_runner::{Config, RngAlgorithm, TestRng, TestRunner};
    let mut sb = [0u8; 32];
    sb[..8].copy_from_slice(&seed.to_le_bytes());
    for (i, b) in tag.bytes().take(16).enumerate() {
        sb[8 + i] = b;
    }
    let mut runner = TestRunner::new_with_rng(Config { failure_persistence: None, ..Config::default() }, TestRng::from_seed(RngAlgorithm::ChaCha, &sb));
    (0..n).map(|_| strategy.new_tree(&mut runner).unwrap().current()).collect()
}

/// f32 literal that reproduces the value exactly.
pub fn f32_lit(v: f32) -> String {
    if v == v.trunc() && v.abs() < 1e7 {
        format!("{:.1}", v)
    } else {
        format!("f32::from_bits({:#x})", v.to_bits())
    }
}

/// Runs `f(batch, slot)` for every batch index on `slots` workers (each with its own cargo target
/// directory); batches are picked in order and no new one is started once `failed` says a finished
/// one found something. Entry b is None only for batches that were never started.
pub fn par_batches<R: Send>(batches: usize, slots: usize, f: impl Fn(usize, usize) -> R + Sync, failed: impl Fn(&R) -> bool + Sync) -> Vec<Option<R>> {
    use std::sync::atomic::{AtomicBool, AtomicUsize, Ordering};
    let next = AtomicUsize::new(0);
    let stop = AtomicBool::new(false);
    let out: std::sync::Mutex<Vec<Option<R>>> = std::sync::Mutex::new((0..batches).map(|_| None).collect());
    std::thread::scope(|sc| {
        for slot in 0..slots.max(1).min(batches.max(1)) {
            let (next, stop, out, f, failed) = (&next, &stop, &out, &f, &failed);
            sc.spawn(move || loop {
                if stop.load(Ordering::SeqCst) {
                    break;
                }
                let b = next.fetch_add(1, Ordering::SeqCst);
                if b >= batches {
                    break;
                }
                let r = f(b, slot);
                if failed(&r) {
                    stop.store(true, Ordering::SeqCst);
                }
                out.lock().unwrap()[b] = Some(r);
            });
        }
    });
    out.into_inner().unwrap()
}

pub fn any_not_ok(v: &[crate::c15::Outcome]) -> bool {
    v.iter().any(|o| !matches!(o, crate::c15::Outcome::Ok))
}

/// worker slots (cargo target directories) for compiled batches: 4 in the quick tier (<= 16 batches;
/// these are the ones `gen warmup` pre-builds), 12 in the thorough tier
pub const QUICK_SLOTS: usize = 4;
pub fn slots_for(batches: usize) -> usize {
    if batches <= 16 { batches.clamp(1, QUICK_SLOTS) } else { 12 }
}

//! Shared check engine: sharded proptest runner, parallel enumerations, replay files, committed
//! corpus tier, known findings, evidence writer, exit codes.
//!
//! Exit codes: 0 = property held on everything explored; 1 = `VIOLATION property=<id> replay=<path>`
//! printed; 2 = infrastructure / generator-health problem (never a violation).

use proptest::strategy::Strategy;
use proptest::test_runner::{Config, RngAlgorithm, TestCaseError, TestError, TestRng, TestRunner};
use serde::de::DeserializeOwned;
use serde::Serialize;
use serde_json::{json, Value};
use std::cell::{Cell, RefCell};
use std::collections::{BTreeMap, HashSet};
use std::hash::Hasher;
use std::path::{Path, PathBuf};
use std::sync::atomic::{AtomicBool, AtomicU64, Ordering};
use std::sync::Mutex;
use std::time::Instant;

pub use proptest;
pub use serde_json;

pub fn verif_root() -> PathBuf {
    if let Ok(r) = std::env::var("VERIF_ROOT") {
        return PathBuf::from(r);
    }
    // harness/mv-engine -> /verif
    Path::new(env!("CARGO_MANIFEST_DIR")).parent().unwrap().parent().unwrap().to_path_buf()
}

#[derive(Clone, Copy, Debug, PartialEq, Eq)]
pub enum Tier {
    Quick,
    Thorough,
}

impl Tier {
    pub fn name(&self) -> &'static str {
        match self {
            Tier::Quick => "quick",
            Tier::Thorough => "thorough",
        }
    }
    /// picks the case count for the tier
    pub fn pick(&self, quick: u64, thorough: u64) -> u64 {
        let base = match self {
            Tier::Quick => quick,
            Tier::Thorough => thorough,
        };
        // VERIF_SCALE (percent) lets sensitivity experiments run a smaller or larger budget.
        match std::env::var("VERIF_SCALE").ok().and_then(|s| s.parse::<u64>().ok()) {
            Some(p) => (base * p / 100).max(16),
            None => base,
        }
    }
}

/// Per-case observations a check reports to the engine.
#[derive(Default, Clone, Debug)]
pub struct Obs {
    /// bit i set = label i (names given to `prop`) applies to this case
    pub labels: u64,
    /// case satisfied the property's stated non-trivial rule
    pub nontrivial: bool,
    /// number of individual judgements made inside the case (e.g. time points)
    pub judged: u64,
    /// judgements skipped because the property does not speak about them
    pub skipped: u64,
    /// judgements decided with the either-side rule next to a discontinuity
    pub near: u64,
    /// judgements excluded because they fall under a listed known finding
    pub excluded_known: u64,
}

impl Obs {
    pub fn label(&mut self, bit: usize) {
        self.labels |= 1u64 << bit;
    }
    pub fn label_if(&mut self, bit: usize, cond: bool) {
        if cond {
            self.labels |= 1u64 << bit;
        }
    }
}

#[derive(Default, Clone)]
struct Stats {
    cases: u64,
    judged: u64,
    skipped: u64,
    near: u64,
    excluded_known: u64,
    nontrivial: u64,
    label_counts: Vec<u64>,
    keys: HashSet<u64>,
    samples: Vec<Value>,
}

impl Stats {
    fn merge(&mut self, o: Stats) {
        self.cases += o.cases;
        self.judged += o.judged;
        self.skipped += o.skipped;
        self.near += o.near;
        self.excluded_known += o.excluded_known;
        self.nontrivial += o.nontrivial;
        if self.label_counts.len() < o.label_counts.len() {
            self.label_counts.resize(o.label_counts.len(), 0);
        }
        for (i, c) in o.label_counts.iter().enumerate() {
            self.label_counts[i] += c;
        }
        self.keys.extend(o.keys);
        for s in o.samples {
            if self.samples.len() < 8 {
                self.samples.push(s);
            }
        }
    }
}

struct HashWriter(std::collections::hash_map::DefaultHasher);
impl std::io::Write for HashWriter {
    fn write(&mut self, buf: &[u8]) -> std::io::Result<usize> {
        self.0.write(buf);
        Ok(buf.len())
    }
    fn flush(&mut self) -> std::io::Result<()> {
        Ok(())
    }
}

pub fn case_key<C: Serialize>(c: &C) -> u64 {
    let mut w = HashWriter(std::collections::hash_map::DefaultHasher::new());
    let _ = serde_json::to_writer(&mut w, c);
    w.0.finish()
}

fn fnv(parts: &[&[u8]]) -> u64 {
    let mut h: u64 = 0xcbf29ce484222325;
    for p in parts {
        for b in *p {
            h ^= *b as u64;
            h = h.wrapping_mul(0x100000001b3);
        }
        h ^= 0xff;
        h = h.wrapping_mul(0x100000001b3);
    }
    h
}

#[derive(Clone, Debug)]
pub struct Violation {
    pub check: String,
    pub case: Value,
    pub detail: String,
}

struct SubReport {
    name: String,
    kind: &'static str,
    stats: Stats,
    labels: Vec<String>,
    rule: String,
    exhaustive: bool,
    space: Option<u64>,
    wall_s: f64,
}

pub enum Mode {
    Check,
    Replay { check: String, case: Value },
}

pub struct Run {
    pub id: String,
    pub tier: Tier,
    pub seed: u64,
    pub mode: Mode,
    pub threads: usize,
    start: Instant,
    subs: Vec<SubReport>,
    violations: Vec<(Violation, PathBuf)>,
    known_lines: Vec<String>,
    known: Vec<KnownFinding>,
    health: Vec<String>,
    assumptions: Vec<String>,
    extra: BTreeMap<String, Value>,
    replay_ran: bool,
}

#[derive(Clone, Debug)]
pub struct KnownFinding {
    pub property: String,
    pub key: String,
    pub text: String,
}

pub fn load_known_findings() -> Vec<KnownFinding> {
    let p = verif_root().join("KNOWN_FINDINGS.txt");
    let Ok(s) = std::fs::read_to_string(p) else { return vec![] };
    let mut out = vec![];
    for line in s.lines() {
        let line = line.trim();
        // only `finding:` lines suppress anything; `fixed:` lines are a record.
        let Some(rest) = line.strip_prefix("finding:") else { continue };
        let mut property = String::new();
        let mut key = String::new();
        for tok in rest.split_whitespace() {
            if let Some(v) = tok.strip_prefix("property=") {
                property = v.to_string();
            } else if let Some(v) = tok.strip_prefix("key=") {
                key = v.to_string();
            }
        }
        if !property.is_empty() && !key.is_empty() {
            out.push(KnownFinding { property, key, text: rest.trim().to_string() });
        }
    }
    out
}

/// Silences panic messages (checks catch panics and report them as data).
pub fn quiet_panics() {
    std::panic::set_hook(Box::new(|_| {}));
}

impl Run {
    /// Parses `<bin> <ID> quick|thorough` / `<bin> replay <ID> <file>`; returns None for bad usage.
    pub fn from_args(args: &[String]) -> Option<Run> {
        let seed = std::env::var("VERIF_SEED").ok().and_then(|s| s.trim().parse::<i64>().ok()).unwrap_or(0) as u64;
        let threads = std::env::var("VERIF_THREADS")
            .ok()
            .and_then(|s| s.parse::<usize>().ok())
            .unwrap_or_else(|| std::thread::available_parallelism().map(|n| n.get()).unwrap_or(8).min(16));
        let mk = |id: &str, tier: Tier, mode: Mode| Run {
            id: id.to_string(),
            tier,
            seed,
            mode,
            threads,
            start: Instant::now(),
            subs: vec![],
            violations: vec![],
            known_lines: vec![],
            known: load_known_findings(),
            health: vec![],
            assumptions: vec![],
            extra: BTreeMap::new(),
            replay_ran: false,
        };
        // watchdog: a check that hangs (or takes absurdly long) is an infrastructure problem, exit 2
        {
            let tier_s = args.get(1).cloned().or_else(|| std::env::var("VERIF_TIER").ok()).unwrap_or_default();
            let default_s: u64 = if tier_s == "thorough" { 4 * 3600 } else { 1200 };
            let limit = std::env::var("VERIF_WATCHDOG_S").ok().and_then(|s| s.parse::<u64>().ok()).unwrap_or(default_s);
            let id = args.first().cloned().unwrap_or_default();
            std::thread::spawn(move || {
                std::thread::sleep(std::time::Duration::from_secs(limit));
                eprintln!("WATCHDOG property={id}: no result after {limit} s - inconclusive (not a violation)");
                std::process::exit(2);
            });
        }
        if args.len() >= 3 && args[0] == "replay" {
            let text = std::fs::read_to_string(&args[2]).ok()?;
            let v: Value = serde_json::from_str(&text).ok()?;
            let check = v.get("check")?.as_str()?.to_string();
            let case = v.get("case")?.clone();
            return Some(mk(&args[1], Tier::Quick, Mode::Replay { check, case }));
        }
        if args.is_empty() {
            return None;
        }
        let tier_s = args.get(1).cloned().or_else(|| std::env::var("VERIF_TIER").ok()).unwrap_or_default();
        let tier = if tier_s == "thorough" { Tier::Thorough } else { Tier::Quick };
        Some(mk(&args[0], tier, Mode::Check))
    }

    pub fn is_replay(&self) -> bool {
        matches!(self.mode, Mode::Replay { .. })
    }

    pub fn assume(&mut self, s: &str) {
        if !self.assumptions.iter().any(|a| a == s) {
            self.assumptions.push(s.to_string());
        }
    }

    pub fn extra(&mut self, k: &str, v: Value) {
        self.extra.insert(k.to_string(), v);
    }

    pub fn health_fail(&mut self, msg: String) {
        eprintln!("HEALTH: {msg}");
        self.health.push(msg);
    }

    /// Is `key` listed as a known finding for this property?
    pub fn is_known(&self, key: &str) -> bool {
        self.known.iter().any(|k| k.property == self.id && k.key == key)
    }

    /// Prints the KNOWN-FINDING line (once per key).
    pub fn report_known(&mut self, key: &str, what: &str) {
        let line = format!("KNOWN-FINDING: property={} key={} {}", self.id, key, what);
        if !self.known_lines.iter().any(|l| l.starts_with(&format!("KNOWN-FINDING: property={} key={} ", self.id, key))) {
            println!("{line}");
            self.known_lines.push(line);
        }
    }

    fn corpus_cases(&self, check: &str) -> Vec<(PathBuf, Value)> {
        let dir = verif_root().join("corpus").join(&self.id);
        let mut out = vec![];
        let Ok(rd) = std::fs::read_dir(dir) else { return out };
        let mut files: Vec<PathBuf> = rd.filter_map(|e| e.ok().map(|e| e.path())).filter(|p| p.extension().map(|e| e == "json").unwrap_or(false)).collect();
        files.sort();
        for f in files {
            let Ok(text) = std::fs::read_to_string(&f) else { continue };
            let Ok(v) = serde_json::from_str::<Value>(&text) else { continue };
            if v.get("check").and_then(|c| c.as_str()) == Some(check) {
                if let Some(c) = v.get("case") {
                    out.push((f, c.clone()));
                }
            }
        }
        out
    }

    pub fn record_violation(&mut self, v: Violation) {
        let dir = verif_root().join("replays").join(&self.id);
        let _ = std::fs::create_dir_all(&dir);
        let body = json!({"property": self.id, "check": v.check, "case": v.case, "detail": v.detail, "seed": self.seed, "tier": self.tier.name()});
        let text = serde_json::to_string_pretty(&body).unwrap();
        let h = fnv(&[v.check.as_bytes(), serde_json::to_string(&v.case).unwrap().as_bytes()]);
        let path = dir.join(format!("{}-{:016x}.json", v.check, h));
        let _ = std::fs::write(&path, text);
        println!("VIOLATION property={} replay={}", self.id, path.display());
        println!("  check={} detail={}", v.check, truncate(&v.detail, 1500));
        self.violations.push((v, path));
    }

    /// Runs a generated-case check: corpus cases first (plain, no proptest), then `cases` proptest
    /// cases split over shards. `f` judges one case. In replay mode only the named check runs, once.
    pub fn prop<C, S, F>(&mut self, name: &str, rule: &str, labels: &[&str], strategy: S, cases: u64, f: F)
    where
        C: Serialize + DeserializeOwned + std::fmt::Debug + Clone + Send,
        S: Strategy<Value = C> + Sync,
        F: Fn(&C, &mut Obs) -> Result<(), String> + Sync,
    {
        self.prop_factory(name, rule, labels, || &strategy, cases, f)
    }

    /// Same as `prop`, for strategies that are not `Sync` (boxed strategies): every shard builds
    /// its own instance through `make`.
    pub fn prop_factory<C, S, G, F>(&mut self, name: &str, rule: &str, labels: &[&str], make: G, cases: u64, f: F)
    where
        C: Serialize + DeserializeOwned + std::fmt::Debug + Clone + Send,
        S: Strategy<Value = C>,
        G: Fn() -> S + Sync,
        F: Fn(&C, &mut Obs) -> Result<(), String> + Sync,
    {
        let t0 = Instant::now();
        if let Mode::Replay { check, case } = &self.mode {
            if check != name {
                return;
            }
            self.replay_ran = true;
            match serde_json::from_value::<C>(case.clone()) {
                Ok(c) => {
                    let mut obs = Obs::default();
                    let res = run_guarded(&f, &c, &mut obs);
                    match res {
                        Ok(()) => println!("REPLAY property={} check={} result=pass obs={:?}", self.id, name, obs),
                        Err(d) => {
                            println!("REPLAY property={} check={} result=FAIL detail={}", self.id, name, truncate(&d, 4000));
                            let v = Violation { check: name.to_string(), case: case.clone(), detail: d };
                            self.violations.push((v, PathBuf::from("(replay)")));
                        }
                    }
                }
                Err(e) => self.health_fail(format!("replay case does not deserialize for {name}: {e}")),
            }
            return;
        }

        let mut stats = Stats::default();
        stats.label_counts = vec![0; labels.len()];

        // 1. committed corpus (regression replays)
        let mut corpus_n = 0u64;
        for (path, cv) in self.corpus_cases(name) {
            match serde_json::from_value::<C>(cv.clone()) {
                Ok(c) => {
                    corpus_n += 1;
                    let mut obs = Obs::default();
                    if let Err(d) = run_guarded(&f, &c, &mut obs) {
                        self.record_violation(Violation { check: name.to_string(), case: cv, detail: format!("[corpus {}] {}", path.display(), d) });
                    }
                    account(&mut stats, &c, &obs, true);
                }
                Err(e) => self.health_fail(format!("corpus file {} does not deserialize: {e}", path.display())),
            }
        }

        // 2. generated tier
        let shards = self.threads.max(1) as u64;
        let per = (cases + shards - 1) / shards;
        let abort = AtomicBool::new(false);
        let results: Mutex<Vec<(u64, Stats, Option<(C, String)>)>> = Mutex::new(vec![]);
        let seed = self.seed;
        let id = self.id.clone();
        std::thread::scope(|sc| {
            for shard in 0..shards {
                let (abort, results, make, f, id) = (&abort, &results, &make, &f, &id);
                std::thread::Builder::new()
                    .stack_size(64 << 20)
                    .spawn_scoped(sc, move || {
                        let h1 = fnv(&[&seed.to_le_bytes(), id.as_bytes(), name.as_bytes(), &shard.to_le_bytes()]);
                        let mut sb = [0u8; 32];
                        for i in 0..4 {
                            let hi = fnv(&[&h1.to_le_bytes(), &[i as u8]]);
                            sb[i * 8..i * 8 + 8].copy_from_slice(&hi.to_le_bytes());
                        }
                        let config = Config {
                            cases: per as u32,
                            failure_persistence: None,
                            max_shrink_iters: 20_000,
                            max_global_rejects: 1_000_000,
                            source_file: None,
                            ..Config::default()
                        };
                        let mut runner = TestRunner::new_with_rng(config, TestRng::from_seed(RngAlgorithm::ChaCha, &sb));
                        let st = RefCell::new({
                            let mut s = Stats::default();
                            s.label_counts = vec![0; labels.len()];
                            s
                        });
                        let failed = Cell::new(false);
                        let strategy = make();
                        let res = runner.run(&strategy, |c: C| {
                            if !failed.get() && abort.load(Ordering::Relaxed) {
                                return Ok(());
                            }
                            let mut obs = Obs::default();
                            let r = run_guarded(f, &c, &mut obs);
                            if !failed.get() {
                                match &r {
                                    Ok(()) => account(&mut st.borrow_mut(), &c, &obs, false),
                                    Err(_) => {
                                        failed.set(true);
                                        abort.store(true, Ordering::Relaxed);
                                    }
                                }
                            }
                            r.map_err(TestCaseError::fail)
                        });
                        let fail = match res {
                            Ok(()) => None,
                            Err(TestError::Fail(reason, c)) => {
                                // recompute the detail on the shrunk case (the reason string is of the last failing run)
                                let mut obs = Obs::default();
                                let d = run_guarded(f, &c, &mut obs).err().unwrap_or_else(|| reason.message().to_string());
                                Some((c, d))
                            }
                            Err(TestError::Abort(reason)) => {
                                eprintln!("proptest aborted in {name} shard {shard}: {reason}");
                                None
                            }
                        };
                        results.lock().unwrap().push((shard, st.into_inner(), fail));
                    })
                    .unwrap();
            }
        });
        let mut results = results.into_inner().unwrap();
        results.sort_by_key(|r| r.0);
        let mut first_fail: Option<(C, String)> = None;
        for (_, s, fail) in results {
            stats.merge(s);
            if first_fail.is_none() {
                first_fail = fail;
            }
        }
        if let Some((c, d)) = first_fail {
            self.record_violation(Violation { check: name.to_string(), case: serde_json::to_value(&c).unwrap(), detail: d });
        }
        let _ = corpus_n;
        self.subs.push(SubReport {
            name: name.to_string(),
            kind: "proptest",
            stats,
            labels: labels.iter().map(|s| s.to_string()).collect(),
            rule: rule.to_string(),
            exhaustive: false,
            space: None,
            wall_s: t0.elapsed().as_secs_f64(),
        });
    }

    /// Parallel enumeration of the index space `0..total` in chunks. `f(range, obs)` judges a chunk;
    /// it returns the first failure as (case json, detail). Every index is a distinct case by
    /// construction; `obs.nontrivial_n` style counting is done through `EnumObs`.
    pub fn enumerate<F>(&mut self, name: &str, rule: &str, total: u64, chunk: u64, exhaustive: bool, f: F)
    where
        F: Fn(std::ops::Range<u64>, &mut EnumObs) -> Result<(), (Value, String)> + Sync,
    {
        let t0 = Instant::now();
        if let Mode::Replay { check, case } = &self.mode {
            if check != name {
                return;
            }
            self.replay_ran = true;
            // enumerations replay by index: {"index": i}
            if let Some(i) = case.get("index").and_then(|i| i.as_u64()) {
                let mut obs = EnumObs::default();
                match f(i..i + 1, &mut obs) {
                    Ok(()) => println!("REPLAY property={} check={} result=pass", self.id, name),
                    Err((c, d)) => {
                        println!("REPLAY property={} check={} result=FAIL detail={}", self.id, name, truncate(&d, 4000));
                        self.violations.push((Violation { check: name.to_string(), case: c, detail: d }, PathBuf::from("(replay)")));
                    }
                }
            } else {
                self.health_fail(format!("replay of enumeration {name} needs case.index"));
            }
            return;
        }
        // corpus for enumerations: indices
        for (path, cv) in self.corpus_cases(name) {
            if let Some(i) = cv.get("index").and_then(|i| i.as_u64()) {
                let mut obs = EnumObs::default();
                if let Err((c, d)) = f(i..i + 1, &mut obs) {
                    self.record_violation(Violation { check: name.to_string(), case: c, detail: format!("[corpus {}] {}", path.display(), d) });
                }
            }
        }
        let next = AtomicU64::new(0);
        let abort = AtomicBool::new(false);
        let agg: Mutex<(EnumObs, Option<(u64, Value, String)>)> = Mutex::new((EnumObs::default(), None));
        std::thread::scope(|sc| {
            for _ in 0..self.threads.max(1) {
                let (next, abort, agg, f) = (&next, &abort, &agg, &f);
                std::thread::Builder::new()
                    .stack_size(64 << 20)
                    .spawn_scoped(sc, move || {
                        let mut local = EnumObs::default();
                        let mut fail: Option<(u64, Value, String)> = None;
                        loop {
                            if abort.load(Ordering::Relaxed) {
                                break;
                            }
                            let lo = next.fetch_add(chunk, Ordering::Relaxed);
                            if lo >= total {
                                break;
                            }
                            let hi = (lo + chunk).min(total);
                            let r = std::panic::catch_unwind(std::panic::AssertUnwindSafe(|| f(lo..hi, &mut local)));
                            match r {
                                Ok(Ok(())) => {}
                                Ok(Err((c, d))) => {
                                    fail = Some((lo, c, d));
                                    abort.store(true, Ordering::Relaxed);
                                    break;
                                }
                                Err(p) => {
                                    fail = Some((lo, json!({"index_range": [lo, hi]}), format!("panic: {}", panic_msg(&p))));
                                    abort.store(true, Ordering::Relaxed);
                                    break;
                                }
                            }
                        }
                        let mut g = agg.lock().unwrap();
                        g.0.merge(&local);
                        if let Some(fl) = fail {
                            if g.1.as_ref().map(|x| fl.0 < x.0).unwrap_or(true) {
                                g.1 = Some(fl);
                            }
                        }
                    })
                    .unwrap();
            }
        });
        let (obs, fail) = agg.into_inner().unwrap();
        if let Some((_, c, d)) = fail {
            self.record_violation(Violation { check: name.to_string(), case: c, detail: d });
        }
        let mut stats = Stats::default();
        stats.cases = obs.evaluated;
        stats.judged = obs.evaluated;
        stats.nontrivial = obs.nontrivial;
        stats.skipped = obs.skipped;
        stats.near = obs.near;
        stats.excluded_known = obs.excluded_known;
        stats.samples = obs.samples.clone();
        self.subs.push(SubReport {
            name: name.to_string(),
            kind: "enumeration",
            stats,
            labels: vec![],
            rule: rule.to_string(),
            exhaustive,
            space: Some(total),
            wall_s: t0.elapsed().as_secs_f64(),
        });
    }

    /// Records an externally executed sub-check (compiled batches, fuzz campaigns, ...).
    pub fn external(&mut self, name: &str, kind: &'static str, rule: &str, evaluated: u64, nontrivial_distinct: u64, samples: Vec<Value>, wall_s: f64) {
        let mut stats = Stats::default();
        stats.cases = evaluated;
        stats.judged = evaluated;
        stats.nontrivial = nontrivial_distinct;
        stats.samples = samples;
        self.subs.push(SubReport { name: name.to_string(), kind, stats, labels: vec![], rule: rule.to_string(), exhaustive: false, space: None, wall_s });
    }

    /// Fraction of cases of sub-check `name` carrying label `label` (for generator health floors).
    pub fn label_fraction(&self, name: &str, label: &str) -> Option<f64> {
        let s = self.subs.iter().find(|s| s.name == name)?;
        let i = s.labels.iter().position(|l| l == label)?;
        if s.stats.cases == 0 {
            return None;
        }
        Some(s.stats.label_counts[i] as f64 / s.stats.cases as f64)
    }

    pub fn require_label(&mut self, name: &str, label: &str, floor: f64) {
        if self.is_replay() {
            return;
        }
        match self.label_fraction(name, label) {
            Some(fr) if fr >= floor => {}
            Some(fr) => self.health_fail(format!("{name}: label '{label}' only on {:.3}% of cases (floor {:.3}%)", fr * 100.0, floor * 100.0)),
            None => {
                // a violation stops the run early; do not pile a health error on top
                if self.violations.is_empty() {
                    self.health_fail(format!("{name}: label '{label}' not measured"))
                }
            }
        }
    }

    /// Writes evidence, prints the summary, returns the exit code.
    pub fn finish(mut self) -> i32 {
        if let Mode::Replay { check, .. } = &self.mode {
            if !self.replay_ran {
                eprintln!("replay: no check named {check} in property {}", self.id);
                return 2;
            }
            return if self.violations.is_empty() { 0 } else { 1 };
        }
        let wall = self.start.elapsed().as_secs_f64();
        let mut evaluations = 0u64;
        let mut distinct = 0u64;
        let mut samples: Vec<Value> = vec![];
        let mut checks = vec![];
        let mut rules = vec![];
        let mut any_exh = false;
        for s in &self.subs {
            let d = if s.kind == "proptest" { s.stats.keys.len() as u64 } else { s.stats.nontrivial };
            evaluations += s.stats.cases;
            distinct += d;
            for smp in s.stats.samples.iter().take(3) {
                samples.push(json!({"check": s.name, "case": smp}));
            }
            let mut hist = serde_json::Map::new();
            for (i, l) in s.labels.iter().enumerate() {
                hist.insert(l.clone(), json!(s.stats.label_counts.get(i).copied().unwrap_or(0)));
            }
            any_exh |= s.exhaustive;
            rules.push(format!("[{}] {}", s.name, s.rule));
            checks.push(json!({
                "name": s.name, "kind": s.kind, "cases": s.stats.cases, "judgements": s.stats.judged,
                "nontrivial_cases": s.stats.nontrivial, "distinct_nontrivial": d,
                "skipped_judgements": s.stats.skipped, "near_boundary_judgements": s.stats.near,
                "excluded_by_known_finding": s.stats.excluded_known,
                "labels": Value::Object(hist), "exhaustive": s.exhaustive, "space": s.space, "wall_s": (s.wall_s * 1000.0).round() / 1000.0,
            }));
        }
        let mut coverage = serde_json::Map::new();
        coverage.insert("evaluations".into(), json!(evaluations));
        coverage.insert("distinct_nontrivial".into(), json!(distinct));
        coverage.insert("rule".into(), json!(rules.join(" || ")));
        coverage.insert("samples".into(), Value::Array(samples));
        coverage.insert("checks".into(), Value::Array(checks));
        coverage.insert("exhaustive_subsweeps".into(), json!(any_exh));
        coverage.insert("known_findings_reported".into(), json!(self.known_lines));
        coverage.insert("health".into(), json!(self.health));
        coverage.insert("threads".into(), json!(self.threads));
        for (k, v) in std::mem::take(&mut self.extra) {
            coverage.insert(k, v);
        }
        let ev = json!({
            "property_id": self.id,
            "tier": self.tier.name(),
            "seed": self.seed as i64,
            "level": "exploration",
            "coverage": Value::Object(coverage),
            "assumptions": self.assumptions,
            "wall_s": (wall * 1000.0).round() / 1000.0,
            "violations": self.violations.len(),
        });
        let dir = verif_root().join("evidence");
        let _ = std::fs::create_dir_all(&dir);
        let path = dir.join(format!("{}.json", self.id));
        if let Err(e) = std::fs::write(&path, serde_json::to_string_pretty(&ev).unwrap()) {
            eprintln!("cannot write evidence {}: {e}", path.display());
            return 2;
        }
        println!(
            "SUMMARY property={} tier={} seed={} evaluations={} distinct_nontrivial={} violations={} known={} wall_s={:.1}",
            self.id, self.tier.name(), self.seed, evaluations, distinct, self.violations.len(), self.known_lines.len(), wall
        );
        for s in &self.subs {
            println!("  sub {} [{}] cases={} judged={} nontrivial={} skipped={} near={} {:.1}s", s.name, s.kind, s.stats.cases, s.stats.judged, s.stats.nontrivial, s.stats.skipped, s.stats.near, s.wall_s);
        }
        if !self.violations.is_empty() {
            return 1;
        }
        if !self.health.is_empty() {
            return 2;
        }
        0
    }

    /// Summary of one sub-check (used by child processes to hand their numbers to the parent).
    pub fn sub_summary(&self, name: &str) -> Value {
        match self.subs.iter().find(|s| s.name == name) {
            Some(s) => json!({
                "cases": s.stats.cases,
                "distinct_nontrivial": if s.kind == "proptest" { s.stats.keys.len() as u64 } else { s.stats.nontrivial },
                "samples": s.stats.samples,
                "wall_s": s.wall_s,
            }),
            None => Value::Null,
        }
    }

    /// Counts a violation whose VIOLATION line and replay file were produced by a child process.
    pub fn note_external_violation(&mut self, check: &str, detail: &str) {
        self.violations.push((Violation { check: check.to_string(), case: Value::Null, detail: detail.to_string() }, PathBuf::from("(child)")));
    }

    /// For checks that interpret a replay case themselves (compiled programs): the case was run.
    pub fn mark_replay_ran(&mut self) {
        self.replay_ran = true;
    }

    pub fn violation_count(&self) -> usize {
        self.violations.len()
    }
}

#[derive(Default, Clone, Debug)]
pub struct EnumObs {
    pub evaluated: u64,
    pub nontrivial: u64,
    pub skipped: u64,
    pub near: u64,
    pub excluded_known: u64,
    pub samples: Vec<Value>,
}

impl EnumObs {
    fn merge(&mut self, o: &EnumObs) {
        self.evaluated += o.evaluated;
        self.nontrivial += o.nontrivial;
        self.skipped += o.skipped;
        self.near += o.near;
        self.excluded_known += o.excluded_known;
        for s in &o.samples {
            if self.samples.len() < 6 {
                self.samples.push(s.clone());
            }
        }
    }
    pub fn sample(&mut self, f: impl FnOnce() -> Value) {
        if self.samples.len() < 2 {
            self.samples.push(f());
        }
    }
}

fn account<C: Serialize>(st: &mut Stats, c: &C, obs: &Obs, _corpus: bool) {
    st.cases += 1;
    st.judged += obs.judged;
    st.skipped += obs.skipped;
    st.near += obs.near;
    st.excluded_known += obs.excluded_known;
    let mut l = obs.labels;
    while l != 0 {
        let i = l.trailing_zeros() as usize;
        if i < st.label_counts.len() {
            st.label_counts[i] += 1;
        }
        l &= l - 1;
    }
    if obs.nontrivial {
        st.nontrivial += 1;
        st.keys.insert(case_key(c));
        if st.samples.len() < 3 {
            st.samples.push(serde_json::to_value(c).unwrap_or(Value::Null));
        }
    }
}

pub fn panic_msg(p: &Box<dyn std::any::Any + Send>) -> String {
    if let Some(s) = p.downcast_ref::<&str>() {
        s.to_string()
    } else if let Some(s) = p.downcast_ref::<String>() {
        s.clone()
    } else {
        "(non-string panic)".to_string()
    }
}

fn run_guarded<C, F>(f: &F, c: &C, obs: &mut Obs) -> Result<(), String>
where
    F: Fn(&C, &mut Obs) -> Result<(), String>,
{
    match std::panic::catch_unwind(std::panic::AssertUnwindSafe(|| f(c, obs))) {
        Ok(r) => r,
        Err(p) => Err(format!("panic: {}", panic_msg(&p))),
    }
}

pub fn truncate(s: &str, n: usize) -> String {
    if s.len() <= n {
        s.to_string()
    } else {
        let mut e = n;
        while !s.is_char_boundary(e) {
            e -= 1;
        }
        format!("{}…", &s[..e])
    }
}

/// Monotone index mapping for shrinking: maps a u16 selector into 0..len.
pub fn pick_idx(sel: u16, len: usize) -> usize {
    if len == 0 {
        return 0;
    }
    ((sel as usize) * len) >> 16
}

#!/usr/bin/env python3
"""Evaluates seeded changes (/tmp/seeds/<id>/patchK.diff + demoK.rs) against the checks.

Works on a private copy so that /repo and /verif stay untouched while it runs:
  /tmp/ev/repo    clone of /repo (HEAD)
  /tmp/ev/verif   copy of /verif with the harness' path dependencies rewritten to /tmp/ev/repo
For every seed it confirms (1) the existing tests pass with the change, (2) the demonstration fails
with it and passes without, then runs the quick checks and records which ones report a violation.
Confirmed seeds are copied to /verif/seeded/<id>-<k>/ (patch.diff, demo.rs, meta.json).

usage: eval_seeds.py setup | eval_seeds.py run <id>[:k] ... [--checks C01,C02,...] [--all-checks]
"""
import json, os, shutil, subprocess, sys, time, re

EV = os.environ.get("EV_DIR", "/tmp/ev")
SEEDS = os.environ.get("SEEDS_DIR", "/tmp/seeds")
TAG = os.environ.get("SEEDS_TAG", "")  # e.g. "r2-" for the second round
REPO = f"{EV}/repo"
VERIF = f"{EV}/verif"
ENV = dict(os.environ, CARGO_NET_OFFLINE="true", CARGO_TARGET_DIR=f"{EV}/repo-target")
ALL = ["C01","C02","C03","C04","C05","C06","C07","C08","C09","C10","C11","C12","C13","C14","C15","C16","C17","C18","C19","C20"]
RELATED = {  # checks run by default for a seed of property X (its own + neighbours that share code)
 "C01": ["C01","C02","C08","C09","C10","C11"], "C02": ["C02","C01","C03","C07"], "C03": ["C03","C02","C01","C10","C15"],
 "C04": ["C04","C05","C06","C07"], "C05": ["C05","C04","C07","C08"], "C06": ["C06","C05","C07"], "C07": ["C07","C05","C12","C02"],
 "C08": ["C08","C01","C05","C17","C20"], "C09": ["C09","C10","C01"], "C10": ["C10","C09","C04","C05","C01"], "C11": ["C11","C01","C15"],
 "C12": ["C12","C07","C08","C10"], "C13": ["C13","C01","C02"], "C14": ["C14","C01","C02"], "C15": ["C15","C16","C03"], "C16": ["C16","C15","C05"],
 "C17": ["C17","C08","C01","C03"], "C18": ["C18","C19"], "C19": ["C19","C18"], "C20": ["C20","C03","C14","C07"],
}

def sh(cmd, cwd=None, env=None, timeout=3600):
    p = subprocess.run(["bash", "-o", "pipefail", "-c", cmd], cwd=cwd, env=env or ENV, stdout=subprocess.PIPE, stderr=subprocess.STDOUT, text=True, timeout=timeout)
    return p.returncode, p.stdout

def setup():
    os.makedirs(EV, exist_ok=True)
    if not os.path.exists(REPO):
        sh(f"git clone -q /repo {REPO}")
    else:
        sh("git checkout -q -- . && git clean -qfd && git pull -q", cwd=REPO)
    sync_verif()
    rc, out = sh("./run setup", cwd=VERIF, env=dict(os.environ, CARGO_NET_OFFLINE="true"))
    print(out[-2000:])
    return rc

def sync_verif():
    os.makedirs(VERIF, exist_ok=True)
    sh(f"rsync -a --delete --exclude .git --exclude harness/target --exclude work --exclude replays --exclude evidence --exclude seeded --exclude fuzz/target --exclude fuzz/corpus /verif/ {VERIF}/")
    for root, _, files in os.walk(f"{VERIF}/harness"):
        if "/target" in root:
            continue
        for f in files:
            if f == "Cargo.toml":
                p = os.path.join(root, f)
                s = open(p).read()
                s2 = s.replace('path = "/repo', f'path = "{REPO}')
                if s2 != s:
                    open(p, "w").write(s2)
    for gen in (f"{VERIF}/harness/mv-gen/src", f"{VERIF}/harness/mv-inproc/src"):
        if not os.path.isdir(gen):
            continue
        for f in os.listdir(gen):
            p = os.path.join(gen, f)
            s = open(p).read()
            s2 = s.replace('"/repo', f'"{REPO}')
            if s2 != s:
                open(p, "w").write(s2)

def eval_seed(pid, k, checks):
    sdir = f"{SEEDS}/{pid}"
    patch = f"{sdir}/patch{k}.diff"
    demo = f"{sdir}/demo{k}.rs"
    meta = {"property": pid, "k": k, "patch": patch, "at": time.strftime("%Y-%m-%dT%H:%M:%S"), "repo_head": sh("git rev-parse --short HEAD", cwd=REPO)[1].strip()}
    if not (os.path.exists(patch) and os.path.exists(demo)):
        meta["status"] = "missing files"; return meta
    sh("git checkout -q -- . && git clean -qfd", cwd=REPO)
    rc, out = sh(f"git apply {patch}", cwd=REPO)
    if rc != 0:
        meta["status"] = "patch does not apply"; meta["log"] = out[-500:]; return meta
    touched = sh("git diff --name-only", cwd=REPO)[1].split()
    meta["files"] = touched
    bevy_demo = pid in ("C18", "C19") or "bevy" in open(demo).read()
    aimed = f"{sdir}/prop{k}.txt"
    if os.path.exists(aimed):
        meta["aimed_at"] = open(aimed).read().strip()[:200]
    bevy = any(t.startswith("bevy/") for t in touched) or bevy_demo
    pk = "-p mina -p mina_core -p mina_macros" + (" -p bevy_mina" if bevy else "")
    rc, out = sh(f"cargo test --offline --no-fail-fast {pk} 2>&1 | tail -40", cwd=REPO)
    ok_tests = rc == 0 and "FAILED" not in out and "error" not in out.lower().split("warning")[0]
    results = re.findall(r"test result: (\w+)\. (\d+) passed; (\d+) failed", out)
    meta["existing_tests_with_patch"] = {"ok": all(r[0] == "ok" for r in results) and len(results) > 0, "results": results}
    if not bevy:
        rcb, outb = sh("cargo check --offline -p bevy_mina 2>&1 | tail -5", cwd=REPO)
        meta["bevy_compiles"] = "error" not in outb
    demo_dir = f"{REPO}/bevy/tests" if bevy_demo else f"{REPO}/tests"
    os.makedirs(demo_dir, exist_ok=True)
    demo_dst = f"{demo_dir}/zz_demo_seed.rs"
    shutil.copy(demo, demo_dst)
    dpk = "-p bevy_mina" if bevy_demo else "-p mina"
    rc, out = sh(f"cargo test --offline {dpk} --test zz_demo_seed 2>&1 | tail -15", cwd=REPO)
    meta["demo_with_patch_fails"] = rc != 0 and ("FAILED" in out or "panicked" in out or "error" in out)
    meta["demo_with_patch_tail"] = out[-400:]
    # checks against the mutated tree
    os.remove(demo_dst)
    res = {}
    for c in checks:
        t0 = time.time()
        rc, out = sh(f"./run {c} quick 2>&1 | grep -E 'VIOLATION|detail=|SUMMARY|BUILD-FAILED|HEALTH' | head -6", cwd=VERIF, env=dict(os.environ, CARGO_NET_OFFLINE="true", VERIF_ROOT=VERIF))
        viol = "VIOLATION" in out
        res[c] = {"violation": viol, "build_failed": "BUILD-FAILED" in out, "secs": round(time.time() - t0, 1), "first": out.strip().split("\n")[0][:600] if out.strip() else "", "detail": next((l.strip()[:700] for l in out.split("\n") if "detail=" in l), "")}
    meta["checks"] = res
    meta["caught_by"] = [c for c in checks if res[c]["violation"]]
    # pristine: demo must pass
    sh("git checkout -q -- . && git clean -qfd", cwd=REPO)
    os.makedirs(demo_dir, exist_ok=True)
    shutil.copy(demo, demo_dst)
    rc, out = sh(f"cargo test --offline {dpk} --test zz_demo_seed 2>&1 | tail -8", cwd=REPO)
    meta["demo_pristine_passes"] = rc == 0
    os.remove(demo_dst)
    meta["confirmed"] = bool(meta["existing_tests_with_patch"]["ok"] and meta["demo_with_patch_fails"] and meta["demo_pristine_passes"])
    meta["status"] = "confirmed" if meta["confirmed"] else "NOT confirmed"
    return meta

def eval_benign(bid, k):
    """A change that is claimed to PRESERVE every property: all checks must stay silent (exit 0)."""
    sdir = f"{SEEDS}/{bid}"
    patch = f"{sdir}/patch{k}.diff"
    meta = {"kind": "benign", "id": bid, "k": k, "patch": patch, "at": time.strftime("%Y-%m-%dT%H:%M:%S"), "repo_head": sh("git rev-parse --short HEAD", cwd=REPO)[1].strip()}
    if not os.path.exists(patch):
        meta["status"] = "missing files"; return meta
    sh("git checkout -q -- . && git clean -qfd", cwd=REPO)
    rc, out = sh(f"git apply {patch}", cwd=REPO)
    if rc != 0:
        meta["status"] = "patch does not apply"; meta["log"] = out[-500:]; return meta
    touched = sh("git diff --name-only", cwd=REPO)[1].split()
    meta["files"] = touched
    rc, out = sh("cargo test --offline --no-fail-fast -p mina -p mina_core -p mina_macros -p bevy_mina 2>&1 | tail -40", cwd=REPO)
    results = re.findall(r"test result: (\w+)\. (\d+) passed; (\d+) failed", out)
    meta["existing_tests_with_patch"] = {"ok": all(r[0] == "ok" for r in results) and len(results) > 0, "results": results}
    claimed = [x["property_id"] for x in json.load(open("/verif/MANIFEST.json"))["checks"]]
    if os.environ.get("BENIGN_RELATED"):
        # second pass (after the checks were strengthened): the checks that exercise the touched layer
        layer = {"core/src/timeline": ["C01", "C02", "C05", "C07", "C08", "C09", "C10", "C11", "C12", "C15", "C17", "C20"], "core/src/time_scale": ["C01", "C02", "C03", "C07", "C10", "C20"], "core/src/animator": ["C04", "C05", "C06", "C07", "C08", "C16", "C20"], "macros/src/fn_": ["C15", "C16"], "macros/src/derive": ["C17", "C08", "C01", "C16"], "bevy/src": ["C18", "C19"], "core/src/easing": ["C13", "C01", "C10"], "core/src/interpolation": ["C14", "C01", "C02", "C04", "C20"], "core/src/glam": ["C14"]}
        want = []
        for t in touched:
            for key, cs in layer.items():
                if t.startswith(key):
                    want += [c for c in cs if c not in want]
        claimed = [c for c in claimed if c in want] or claimed
        meta["checks_run"] = "layer-related subset (second pass)"
    res = {}
    for c in claimed:
        t0 = time.time()
        p = subprocess.run(["bash", "-c", f"./run {c} quick 2>&1"], cwd=VERIF, env=dict(os.environ, CARGO_NET_OFFLINE="true", VERIF_ROOT=VERIF), stdout=subprocess.PIPE, stderr=subprocess.STDOUT, text=True)
        o = p.stdout
        res[c] = {"exit": p.returncode, "violation": "VIOLATION" in o, "notes": [l[:300] for l in o.split("\n") if l.startswith("NOTE") or "BUILD-FAILED" in l or l.startswith("HEALTH")][:4], "detail": next((l.strip()[:900] for l in o.split("\n") if "detail=" in l), ""), "secs": round(time.time() - t0, 1)}
    meta["checks"] = res
    meta["alarms"] = [c for c in claimed if res[c]["violation"]]
    meta["nonzero_exit"] = [c for c in claimed if res[c]["exit"] != 0]
    sh("git checkout -q -- . && git clean -qfd", cwd=REPO)
    meta["status"] = "silent" if not meta["nonzero_exit"] else "ALARM/nonzero"
    return meta

def x_checks(pid, k, claimed):
    """Cross-cutting seeds: the checks of the properties the author names, their neighbours, and the
    checks stated about the layer the patch touches."""
    want = []
    try:
        named = re.findall(r"C\d\d", open(f"{SEEDS}/{pid}/prop{k}.txt").read())
    except OSError:
        named = []
    for p in named:
        for c in RELATED.get(p, [p]):
            if c not in want:
                want.append(c)
    try:
        patch = open(f"{SEEDS}/{pid}/patch{k}.diff").read()
    except OSError:
        patch = ""
    layer = {"macros/src/fn_": ["C15", "C16"], "macros/src/derive": ["C17", "C08"], "bevy/src": ["C18", "C19"], "interpolation.rs": ["C14", "C01"], "glam.rs": ["C14"], "easing.rs": ["C13", "C01"], "time_scale.rs": ["C03", "C20"], "animator.rs": ["C05", "C06", "C07", "C20"]}
    for key, cs in layer.items():
        if key in patch:
            for c in cs:
                if c not in want:
                    want.append(c)
    return want or claimed

def main():
    if len(sys.argv) < 2:
        print(__doc__); return 2
    if sys.argv[1] == "setup":
        return setup()
    if sys.argv[1] == "sync":
        sync_verif(); return 0
    if sys.argv[1] == "benign":
        for a in sys.argv[2:]:
            bid, _, ks = a.partition(":")
            for k in ([int(ks)] if ks else [1, 2, 3, 4]):
                m = eval_benign(bid, k)
                print(f"== benign {bid}-{k}: {m.get('status')} tests={m.get('existing_tests_with_patch',{}).get('ok')} alarms={m.get('alarms')} nonzero={m.get('nonzero_exit')} files={m.get('files')}", flush=True)
                for c, r in m.get("checks", {}).items():
                    if r["exit"] != 0 or r["notes"]:
                        print(f"     {c}: exit {r['exit']} {r['notes']} {r['detail'][:500]}", flush=True)
                out = f"/verif/seeded/benign{'2' if os.environ.get('BENIGN_RELATED') else ''}/{bid}-{k}"
                os.makedirs(out, exist_ok=True)
                if os.path.exists(m["patch"]):
                    shutil.copy(m["patch"], f"{out}/patch.diff")
                notes = f"{SEEDS}/{bid}/notes.md"
                if os.path.exists(notes):
                    shutil.copy(notes, f"{out}/agent-notes.md")
                json.dump(m, open(f"{out}/meta.json", "w"), indent=1)
        return 0
    args = sys.argv[2:]
    checks_override = None
    if "--all-checks" in args:
        checks_override = [c for c in ALL if os.path.exists("/verif/MANIFEST.json") and c in [x["property_id"] for x in json.load(open("/verif/MANIFEST.json"))["checks"]]]
        args.remove("--all-checks")
    for a in list(args):
        if a.startswith("--checks"):
            checks_override = a.split("=", 1)[1].split(",")
            args.remove(a)
    claimed = [x["property_id"] for x in json.load(open("/verif/MANIFEST.json"))["checks"]]
    for a in args:
        pid, _, ks = a.partition(":")
        for k in ([int(ks)] if ks else ([1, 2, 3, 4] if pid.startswith("X") else [1, 2, 3])):
            checks = checks_override or [c for c in RELATED.get(pid, x_checks(pid, k, claimed) if pid.startswith("X") else [pid]) if c in claimed]
            m = eval_seed(pid, k, checks)
            out = f"/verif/seeded/{pid}-{TAG}{k}"
            print(f"== {pid}-{TAG}{k}: {m.get('status')} caught_by={m.get('caught_by')} tests={m.get('existing_tests_with_patch',{}).get('ok')} demo_fails={m.get('demo_with_patch_fails')} demo_pristine={m.get('demo_pristine_passes')}", flush=True)
            for c, r in m.get("checks", {}).items():
                print(f"     {c}: {'VIOLATION' if r['violation'] else ('BUILD-FAILED' if r['build_failed'] else 'silent')} ({r['secs']}s) {r['detail'][:300]}", flush=True)
            os.makedirs(out, exist_ok=True)
            if os.path.exists(m["patch"]):
                shutil.copy(m["patch"], f"{out}/patch.diff")
                shutil.copy(f"{SEEDS}/{pid}/demo{k}.rs", f"{out}/demo.rs")
            notes = f"{SEEDS}/{pid}/notes.md"
            if os.path.exists(notes):
                shutil.copy(notes, f"{out}/agent-notes.md")
            json.dump(m, open(f"{out}/meta.json", "w"), indent=1)
    return 0

if __name__ == "__main__":
    sys.exit(main())

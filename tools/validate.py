#!/usr/bin/env python3
import json, sys, glob, os
import jsonschema
ROOT = os.path.dirname(os.path.dirname(os.path.abspath(__file__)))
ok = True
m = json.load(open(f"{ROOT}/MANIFEST.json"))
jsonschema.validate(m, json.load(open("/root/.vp/MANIFEST.schema.json")))
es = json.load(open("/root/.vp/EVIDENCE.schema.json"))
for c in m["checks"]:
    f = c["evidence_file"]
    if not os.path.exists(f):
        print("missing evidence", f); ok = False; continue
    try:
        jsonschema.validate(json.load(open(f)), es)
    except Exception as e:
        print("invalid", f, str(e)[:300]); ok = False
print("manifest ok;", len(m["checks"]), "checks;", "evidence ok" if ok else "EVIDENCE PROBLEMS")
sys.exit(0 if ok else 1)

#!/usr/bin/env bash
# Runs every claimed check's quick (or thorough) tier for a list of seeds and reports any alarm.
# usage: tools/soak.sh <tier> <seed>...      (from /verif or a snapshot of it)
cd "$(dirname "$0")/.."
tier=${1:-quick}; shift
seeds=${@:-0 1 2 3}
./run setup >/dev/null 2>&1 || { echo "setup failed"; exit 2; }
bad=0
for s in $seeds; do
  for id in C01 C02 C03 C04 C05 C06 C07 C08 C09 C10 C11 C12 C13 C14 C15 C16 C17 C18 C19 C20; do
    out=$(VERIF_SEED=$s ./run $id $tier 2>&1); rc=$?
    sum=$(echo "$out" | grep -E "^SUMMARY" | head -1)
    if [ $rc -ne 0 ] || echo "$out" | grep -q "^VIOLATION"; then
      bad=$((bad+1)); echo "ALARM seed=$s id=$id rc=$rc"; echo "$out" | grep -E "VIOLATION|detail=|HEALTH|BUILD" | head -5 | cut -c1-1500
    else
      echo "ok seed=$s $sum" | cut -c1-200
    fi
  done
done
echo "soak done: $bad alarms"
exit $((bad>0))

#!/usr/bin/env python3
"""Regenerates /verif/MANIFEST.json from the table below (kept in one place so that it stays valid)."""
import json, os, subprocess
ROOT = os.path.dirname(os.path.dirname(os.path.abspath(__file__)))

CHECKS = {
 "C01": ("proptest differential against an f64 reference model (per-case error budget)", "4/C01",
         "Generated keyframe sets x easings x timing x start value x times, built through derive(Animate)+builder and judged against an independent f64 model of CSS-style per-property interpolation; exploration, not proof.",
         "Built-in easing curves are evaluated as a black box by the model (their shape is C13's subject); float rounding bounded by the per-case budget of DESIGN 2.5."),
 "C02": ("proptest over the exact (dyadic) domain with equality oracle, every keyframe x every cycle enumerated inside each case", "4/C02",
         "Exactly representable configurations; every keyframe hit, end of every pass, times <= delay and >= total judged with equality.",
         "Exact domain predicate (all named intermediates representable) verified when the case is interpreted."),
 "C03": ("proptest + exhaustive f32 time-axis sweep against an f64 phase model; metamorphic periodicity/mirror checks", "4/C03",
         "Random timing configurations with boundary times; every (thorough) or every 64th (quick) f32 bit pattern of the time axis for 10 fixed configurations; all floats within 64 ulps of each phase boundary.",
         "Domain bound: total duration and t-delay finite in f32. Outside the exact domain a per-case band is accepted."),
 "C11": ("proptest metamorphic: permuted insertion order vs ascending build, bitwise", "4/C11",
         "Keyframe sets with distinct positions x Lehmer-coded permutations x 64 times, bit-identical values and metadata.",
         "Distinct positions (the property's stated domain)."),
}
ORDER = ["C01","C02","C03","C04","C05","C06","C07","C08","C09","C10","C11","C12","C13","C14","C15","C16","C17","C18","C19","C20"]

def main():
    extra = {}
    p = os.path.join(ROOT, "tools", "manifest_checks.json")
    if os.path.exists(p):
        extra = json.load(open(p))
    checks = []
    table = dict(CHECKS)
    for k, v in extra.items():
        table[k] = tuple(v)
    for pid in ORDER:
        if pid not in table:
            continue
        tech, ref, text, note = table[pid]
        checks.append({
            "property_id": pid,
            "quick_cmd": f"./run {pid} quick",
            "thorough_cmd": f"./run {pid} thorough",
            "evidence_file": f"/verif/evidence/{pid}.json",
            "replay_cmd_template": f"./run replay {pid} {{path}}",
            "engine": "mv-engine",
            "level_claimed": {"category": "exploration", "text": text, "design_ref": f"DESIGN.md section {ref}"},
            "level_note": note,
            "technique": tech,
        })
    na = []
    na_path = os.path.join(ROOT, "tools", "not_applicable.json")
    declared = json.load(open(na_path)) if os.path.exists(na_path) else {}
    for pid in ORDER:
        if pid not in table:
            na.append({"property_id": pid, "reason": declared.get(pid, "check not built yet in this revision of /verif (planned: see DESIGN.md section 4); not claimed until it runs clean on the unchanged tree")})
    hooks_commits = []
    hc = os.path.join(ROOT, "tools", "hook_commits.txt")
    if os.path.exists(hc):
        hooks_commits = [l.strip() for l in open(hc) if l.strip()]
    m = {
        "version": 1,
        "setup_cmd": "./run setup",
        "hooks": {
            "guard": "cargo feature `verif-hooks` on mina_core (off by default)",
            "enable": "harness cargo feature `hooks` (default on) of mv-core, forwarded by mv-gen / mv-inproc / mv-bevy / the fuzz crate, enables mina_core/verif-hooks (path dependency on /repo/core); ./run rebuilds with --no-default-features when the hook does not compile against the tree",
            "baseline_off_cmd": "cd /repo && cargo test --workspace --no-fail-fast --offline",
            "source_commits": hooks_commits,
            "add_only": True,
        },
        "engines": [
            {"name": "mv-engine", "path": "/verif/harness/mv-engine", "serves_properties": ORDER, "kind_free_text": "sharded proptest TestRunner (fixed seed from VERIF_SEED, no persistence) + parallel exhaustive enumerations + corpus replay + evidence writer"},
            {"name": "mv-model", "path": "/verif/harness/mv-model", "serves_properties": ["C01","C02","C03","C05","C07","C10","C12","C13"], "kind_free_text": "independent f64 reference model (no dependency on mina)"},
        ],
        "checks": checks,
        "not_applicable": na,
        "notes": "All checks are property-based / fuzzing style generated-input searches against explicit oracles; see DESIGN.md. KNOWN_FINDINGS.txt lists repaired defects (fix: commits in /repo) and known findings.",
    }
    json.dump(m, open(os.path.join(ROOT, "MANIFEST.json"), "w"), indent=1)
    print("wrote MANIFEST.json with", len(checks), "checks,", len(na), "not applicable")

if __name__ == "__main__":
    main()

#!/usr/bin/env python3
"""Writes /verif/seeded/RESULTS.md from the meta.json files produced by eval_seeds.py."""
import json, glob, os
ROOT = os.path.dirname(os.path.dirname(os.path.abspath(__file__)))
rows = []
for d in sorted(glob.glob(f"{ROOT}/seeded/C*-*")) + sorted(glob.glob(f"{ROOT}/seeded/X*-*")):
    m = f"{d}/meta.json"
    if not os.path.exists(m):
        continue
    j = json.load(open(m))
    rows.append((os.path.basename(d), j))
out = ["# Seeded changes and which checks catch them", "",
       "Each change was written by an independent sub-agent that saw only the property text and a scratch worktree.",
       "`confirmed` = with the change applied the existing 46-test suite passes unedited, the agent's demonstration",
       "fails, and the demonstration passes on the pristine tree (re-verified by tools/eval_seeds.py on a private copy).",
       "`caught by` = quick-tier checks (seed 0) that print a VIOLATION with the change applied; the property the change",
       "was aimed at is listed first when it is among them. `what it needs` is in each directory's meta.json / agent-notes.md.", "",
       "| seed | files changed | confirmed | caught by (quick tier) | checks run that stayed silent |", "|---|---|---|---|---|"]
n_conf = n_caught = n_own = 0
for name, j in rows:
    pid = j["property"]
    aimed = [pid] if pid.startswith("C") else __import__("re").findall(r"C\d\d", j.get("aimed_at", ""))
    checks = j.get("checks", {})
    caught = [c for c, r in checks.items() if r.get("violation")]
    silent = [c for c, r in checks.items() if not r.get("violation")]
    caught.sort(key=lambda c: (c not in aimed, c))
    conf = j.get("confirmed")
    if conf:
        n_conf += 1
        if caught:
            n_caught += 1
        if any(a in caught for a in aimed):
            n_own += 1
    label = name if pid.startswith("C") else f"{name} (aimed at {', '.join(aimed) or '?'})"
    out.append(f"| {label} | {', '.join(j.get('files', []))} | {'yes' if conf else 'NO: ' + j.get('status','?')} | {', '.join(caught) if caught else '**none**'} | {', '.join(silent)} |")
out += ["", f"Confirmed: {n_conf} of {len(rows)}; caught by at least one check: {n_caught}; caught by the check of the property they were aimed at: {n_own}.", ""]
# behaviour-preserving changes: every check must stay silent
ben = []
for d in sorted(glob.glob(f"{ROOT}/seeded/benign/B*-*")) + sorted(glob.glob(f"{ROOT}/seeded/benign/T*-*")):
    m = f"{d}/meta.json"
    if os.path.exists(m):
        ben.append((os.path.basename(d), json.load(open(m))))
if ben:
    out += ["## Behaviour-preserving changes (false-alarm round)", "",
            "Each change was written by an independent sub-agent asked for an invasive refactoring that preserves all twenty",
            "properties; ALL twenty quick checks were run with it applied. `silent` = every check exit 0 and no VIOLATION line.", "",
            "| change | files changed | existing tests | result | checks with a VIOLATION | checks with a non-zero exit |", "|---|---|---|---|---|---|"]
    for name, j in ben:
        out.append(f"| {name} | {', '.join(j.get('files', []))} | {'pass' if j.get('existing_tests_with_patch', {}).get('ok') else 'FAIL'} | {j.get('status')} | {', '.join(j.get('alarms', [])) or '-'} | {', '.join(j.get('nonzero_exit', [])) or '-'} |")
    ns = sum(1 for _, j in ben if j.get("status") == "silent")
    out += ["", f"Silent: {ns} of {len(ben)}.", ""]
ben2 = []
for d in sorted(glob.glob(f"{ROOT}/seeded/benign2/*-*")):
    m = f"{d}/meta.json"
    if os.path.exists(m):
        ben2.append((os.path.basename(d), json.load(open(m))))
if ben2:
    ns2 = sum(1 for _, j in ben2 if j.get("status") == "silent")
    out += ["### Second pass against the final checks", "",
            "After the last additions to the checks every behaviour-preserving change was applied once more and the checks that",
            "exercise the touched layer were run (`meta.json` under `seeded/benign2/` lists them per change).", "",
            f"Silent: {ns2} of {len(ben2)}." + ("" if ns2 == len(ben2) else " NOT silent: " + ", ".join(n for n, j in ben2 if j.get("status") != "silent")), ""]
notes = f"{ROOT}/seeded/NOTES.md"
if os.path.exists(notes):
    out.append(open(notes).read())
open(f"{ROOT}/seeded/RESULTS.md", "w").write("\n".join(out))
print("\n".join(out[-4:]))

#!/usr/bin/env python3
"""Writes /verif/seeded/RESULTS.md from the meta.json files produced by eval_seeds.py."""
import json, glob, os
ROOT = os.path.dirname(os.path.dirname(os.path.abspath(__file__)))
rows = []
for d in sorted(glob.glob(f"{ROOT}/seeded/C*-*")):
    m = f"{d}/meta.json"
    if not os.path.exists(m):
        continue
    j = json.load(open(m))
    rows.append((os.path.basename(d), j))
out = ["# Seeded changes and which checks catch them", "",
       "Each change was written by an independent sub-agent that saw only the property text and a scratch worktree.",
       "`confirmed` = with the change applied the existing 46-test suite passes unedited, the agent's demonstration",
       "fails, and the demonstration passes on the pristine tree (re-verified by tools/eval_seeds.py on a private copy).",
       "`caught by` = quick-tier checks (seed 0) that print a VIOLATION with the change applied; the property the change",
       "was aimed at is listed first when it is among them. `what it needs` is in each directory's meta.json / agent-notes.md.", "",
       "| seed | files changed | confirmed | caught by (quick tier) | checks run that stayed silent |", "|---|---|---|---|---|"]
n_conf = n_caught = n_own = 0
for name, j in rows:
    pid = j["property"]
    checks = j.get("checks", {})
    caught = [c for c, r in checks.items() if r.get("violation")]
    silent = [c for c, r in checks.items() if not r.get("violation")]
    caught.sort(key=lambda c: (c != pid, c))
    conf = j.get("confirmed")
    if conf:
        n_conf += 1
        if caught:
            n_caught += 1
        if pid in caught:
            n_own += 1
    out.append(f"| {name} | {', '.join(j.get('files', []))} | {'yes' if conf else 'NO: ' + j.get('status','?')} | {', '.join(caught) if caught else '**none**'} | {', '.join(silent)} |")
out += ["", f"Confirmed: {n_conf} of {len(rows)}; caught by at least one check: {n_caught}; caught by the check of the property they were aimed at: {n_own}.", ""]
notes = f"{ROOT}/seeded/NOTES.md"
if os.path.exists(notes):
    out.append(open(notes).read())
open(f"{ROOT}/seeded/RESULTS.md", "w").write("\n".join(out))
print("\n".join(out[-4:]))
